"""E1 `modset`: interprocedural may-alias / ownership analysis (flow-sensitive per function,
summaries across functions).

Origins of a value (a set; join = union):
   (root, tags, path)   root = ("P", i) parameter i of the analysed function | ("G", name) module-level
                        mutable object.  `path` (k-limited tuple of field names / dict keys / '*') locates a
                        shared object inside the root's structure; `tags` are the fields through which a
                        *fresh* wrapper has to be dereferenced to reach that shared object.
                        tags == (): the value *is* (or is a view of) the shared object root.path.
   ("F",)               freshly allocated / immutable / unknown-external (never alarms: G-2)

operators:  deref(o, f)  through attribute / key f ('*': some element)   tags (f,..)->(..) | path -> path+(f,)
            wrap(o, f)   value stored under f in a new container/object    tags -> (f,)+tags
            shal(o)      shallow copy (dict(x), list(x), a._replace(..))     tags () -> ('=',)  [deref f -> root.path.f]

A *write event* on a target object (field store, item store/delete, container mutator, in-place array
operator, out= argument, call of a callee whose summary mutates that parameter) is a mutation of
parameter i whenever the target has an origin (P, i, 0, k).
Summaries: per function, mut[i] = set of depths m such that deref^m(param i) may be written, and
ret = origins of the returned value in terms of the parameters.  Iterated to a fixpoint.
"""
from __future__ import annotations

import ast
from collections import defaultdict

from . import astutil as A
from .cfg import CFG
from .errors import AnalysisError
from .loader import ClassInfo, FuncInfo, ModuleInfo

F = ("F",)
KMAX = 2
DMAX = 3

CONTAINER_MUTATORS = {"append", "extend", "insert", "pop", "remove", "clear", "update", "sort", "reverse",
                      "setdefault", "popitem", "add", "discard", "appendleft", "popleft", "extendleft",
                      "__setitem__", "__delitem__", "difference_update", "intersection_update",
                      "symmetric_difference_update"}
ARRAY_MUTATORS = {"fill", "resize", "put", "itemset", "setflags", "sort", "partition", "setfield", "byteswap",
                  # torch in-place
                  "zero_", "fill_", "copy_", "add_", "sub_", "mul_", "div_", "neg_", "clamp_", "index_add_",
                  "index_copy_", "index_put_", "masked_fill_", "scatter_", "scatter_add_", "requires_grad_",
                  "detach_", "conj_physical_", "resize_", "set_", "t_", "transpose_", "squeeze_", "unsqueeze_",
                  "normal_", "uniform_", "random_"}
VIEW_METHODS = {"reshape", "ravel", "view", "transpose", "swapaxes", "squeeze", "diagonal", "conj", "conjugate",
                "detach", "contiguous", "permute", "to", "cpu", "cuda", "numpy", "resolve_conj", "expand", "narrow",
                "unsqueeze", "t", "moveaxis", "type", "double", "float", "__getitem__", "view_as", "reshape_as",
                "flatten_view", "as_strided", "real", "imag"}
FRESH_METHODS = {"copy", "clone", "astype", "flatten", "tolist", "item", "sum", "prod", "mean", "max", "min",
                 "dot", "nonzero", "argsort", "cumsum", "round", "any", "all", "tobytes", "norm", "abs",
                 "join", "split", "strip", "format", "replace", "lower", "upper", "startswith", "endswith",
                 "index", "count", "keys", "encode", "decode", "isdigit", "find", "to_dict", "save_to_dict",
                 "__len__", "__contains__", "bit_length", "most_common", "elements", "is_integer",
                 "__eq__", "__hash__", "as_integer_ratio", "hex", "rstrip", "lstrip", "splitlines", "title",
                 "_asdict", "timestamp", "total_seconds", "group", "groups", "span", "partition_str"}
CONTAINER_READERS_DEREF = {"get", "pop", "popitem", "setdefault", "popleft", "__getitem__"}
CONTAINER_READERS_SHAL = {"items", "values", "copy", "union", "intersection", "difference"}

NP_VIEW_FUNCS = {"transpose", "reshape", "ravel", "asarray", "real", "imag", "squeeze", "swapaxes", "moveaxis",
                 "broadcast_to", "atleast_1d", "atleast_2d", "diagonal", "expand_dims", "asanyarray",
                 "ascontiguousarray", "conj", "conjugate", "rollaxis", "broadcast_arrays", "split", "array_split",
                 "hsplit", "vsplit", "flip", "fliplr", "flipud", "rot90", "nan_to_num", "from_numpy", "as_tensor",
                 "view_as_real", "view_as_complex", "permute", "narrow", "select", "unbind", "chunk", "detach",
                 "t", "movedim", "flatten"}
NP_INPLACE_ARG0 = {"copyto", "fill_diagonal", "put", "place", "putmask", "put_along_axis", "shuffle"}
NP_MODULES = {"np", "numpy", "torch", "scipy", "sp", "linalg", "LA"}

BUILTIN_FRESH = {"len", "int", "float", "complex", "str", "bool", "sum", "min", "max", "abs", "round", "all",
                 "any", "isinstance", "hasattr", "range", "id", "repr", "hash", "ord", "chr", "divmod", "pow",
                 "format", "print", "issubclass", "callable", "slice", "bytes", "bin", "hex", "open", "input",
                 "object", "super", "vars", "dir", "globals", "locals", "memoryview", "bytearray", "type",
                 "NotImplementedError", "ValueError", "TypeError", "KeyError", "IndexError", "RuntimeError",
                 "Exception", "AssertionError", "StopIteration", "YastnError", "property", "staticmethod",
                 "classmethod", "__import__", "exit", "quit", "warnings", "DeprecationWarning"}
BUILTIN_SHAL = {"dict", "list", "set", "tuple", "frozenset", "sorted", "reversed", "zip", "enumerate", "filter",
                "iter", "chain", "product", "accumulate", "groupby", "OrderedDict", "defaultdict", "deque",
                "Counter", "islice", "zip_longest", "permutations", "combinations", "cycle", "starmap",
                "takewhile", "dropwhile", "tee", "pairwise", "repeat"}


def _cap(path):
    if len(path) > KMAX:
        return path[:KMAX - 1] + ("*",)
    return path


def deref(o, f="*"):
    """One dereference through field / key `f` ('*' = some element / unknown field).  None = no alias."""
    if o[0] == "F":
        return o
    root, tags, path = o
    if tags:
        top = tags[0]
        if top == "=":
            return (root, tags[1:], _cap(path + (f,)))
        if top == "*" or f == "*" or top == f:
            return (root, tags[1:], path)
        return None
    if len(path) >= KMAX:
        return (root, (), path[:KMAX - 1] + ("*",))
    return (root, (), path + (f,))


def wrap(o, f="*"):
    if o[0] == "F":
        return o
    root, tags, path = o
    if len(tags) >= DMAX:
        return F
    return (root, (f,) + tags, path)


def shal(o):
    if o[0] == "F":
        return o
    root, tags, path = o
    if not tags:
        return (root, ("=",), path)
    return o


def dset(os, f="*"):
    out = set()
    for o in os:
        x = deref(o, f)
        if x is not None:
            out.add(x)
    return frozenset(out) | {F}


def dpath(os, path):
    cur = frozenset(os)
    for f in path:
        cur = dset(cur, f)
    return cur


def wset(os, f="*"):
    return frozenset(wrap(o, f) for o in os) | {F}


def sset(os):
    return frozenset(shal(o) for o in os) | {F}


def P(i):
    return (("P", i), (), ())


def is_shared_param(o):
    return o[0] != "F" and o[0][0] == "P" and not o[1]


def is_shared_global(o):
    return o[0] != "F" and o[0][0] == "G" and not o[1]


def is_shared_cached(o):
    """(part of) a value stored in an lru_cache: root ("C", qualified name of the memoised function)"""
    return o[0] != "F" and o[0][0] == "C" and not o[1]


FSET = frozenset({F})
STALE = "$stale"
MUST = "$must"       # strong updates of container elements: {text of `x[k]`: Val last stored there}


CAP = 48
COARSENED = [0]


def coarsen(os):
    """Widening: too many distinct access paths for one value -> merge, in stages, keeping the wrapper
    tags (which field of the fresh object holds the alias) longer than the location inside the root."""
    COARSENED[0] += 1

    def stage(f):
        out = set()
        for o in os_cur:
            out.add(o if o[0] == "F" else f(*o))
        return out
    os_cur = set(os)
    for f in (lambda r, t, p: (r, t, (p[0], "*") if len(p) > 1 else p),
              lambda r, t, p: (r, t, ("*",) if p else ()),
              lambda r, t, p: (r, (t[0], "*") if len(t) > 1 and t[0] != "=" else (("*", "*") if len(t) > 1 else t), p),
              lambda r, t, p: (r, ("*",) if t else (), p)):
        os_cur = stage(f)
        if len(os_cur) <= CAP:
            break
    return frozenset(os_cur)


class Val:
    __slots__ = ("o", "k")

    def __init__(self, o=FSET, k=frozenset()):
        self.o = frozenset(o)
        if len(self.o) > CAP:
            self.o = coarsen(self.o)
        self.k = frozenset(k)

    def join(self, other):
        return Val(self.o | other.o, self.k | other.k)

    def __eq__(self, other):
        return self.o == other.o and self.k == other.k

    def __hash__(self):
        return hash((self.o, self.k))

    def __repr__(self):
        return f"Val({sorted(self.o)}, {sorted(self.k)})"


FRESH = Val()


class Summary:
    def __init__(self):
        self.mut = defaultdict(set)        # param idx -> set of depths
        self.mut_sites = defaultdict(list)  # param idx -> [(relpath, line, text)]
        self.ret = set()                   # origins
        self.gwrites = set()               # names of module-level objects written
        self.returns_value = False
        self.self_contains = set()         # constructors: origins stored into self

    def sig(self):
        return (tuple(sorted((k, tuple(sorted(v))) for k, v in self.mut.items() if v)),
                tuple(sorted(self.ret)), tuple(sorted(self.gwrites)), self.returns_value,
                tuple(sorted(self.self_contains)))


class WriteEvent:
    __slots__ = ("node", "kind", "targets", "text", "via")

    def __init__(self, node, kind, targets, text, via=None):
        self.node, self.kind, self.targets, self.text, self.via = node, kind, frozenset(targets), text, via


class Engine:
    """Whole-program driver: resolves callees, holds summaries, iterates to a fixpoint."""

    def __init__(self, prog, scope=None, backends=("yastn.backend.backend_np",), max_rounds=40, exempt=None):
        self.prog = prog
        self.track_cached = False       # C16-K3: give results of memoised functions their own root
        self.cached_writes = []         # (FuncInfo, WriteEvent, origin)
        self.exempt = exempt or {}      # (func short name, param name, path) -> reason: writes ignored at the source
        self.exempt_hits = []
        self.scope = set(scope) if scope is not None else None
        self.backends = [prog.module(b) for b in backends]
        self.funcs = []
        for f in prog.all_funcs(self.scope):
            self.funcs.append(f)
        self.by_name = defaultdict(list)         # method name -> FuncInfo's bound as methods
        self.by_id = {}
        for f in self.funcs:
            self.by_id[id(f.node)] = f
            if f.cls is not None or f.bound_to:
                self.by_name[f.name].append(f)
        self.summ = {id(f.node): Summary() for f in self.funcs}
        self.class_members = {}
        for ci in prog.all_classes():
            self.class_members[ci.qualname] = (ci, self._members(ci))
        self.analyses = {}
        self.unresolved = defaultdict(int)
        self.resolved = 0
        self.max_rounds = max_rounds
        self.rounds = 0

    def summary(self, f: FuncInfo) -> Summary:
        s = self.summ.get(id(f.node))
        if s is None:      # out-of-scope repository function: analysed lazily with an empty summary
            s = self.summ[id(f.node)] = Summary()
            self.funcs.append(f)
            self.by_id[id(f.node)] = f
            self._dirty = True
        return s

    def run(self):
        self._dirty = True
        n = 0
        changed = None          # ids of functions whose summary changed in the previous round
        while self._dirty and n < self.max_rounds:
            self._dirty = False
            n += 1
            now_changed = set()
            for f in list(self.funcs):
                key = id(f.node)
                fa = self.analyses.get(key)
                if fa is not None and changed is not None and not (fa.deps & changed) and not fa.uses_getitem:
                    continue
                before = self.summary(f).sig()
                if fa is None:
                    fa = self.analyses[key] = FunctionAnalysis(self, f)
                fa.run()
                if self.summary(f).sig() != before:
                    self._dirty = True
                    now_changed.add(key)
            changed = now_changed
        self.rounds = n
        if self._dirty:
            raise AnalysisError(f"alias summaries did not reach a fixpoint in {self.max_rounds} rounds")
        self.unresolved.clear()
        self.resolved = 0
        for fa in self.analyses.values():
            for k, v in fa.unresolved.items():
                self.unresolved[k] += v
            self.resolved += fa.resolved
        return self

    def analysis(self, f):
        return self.analyses[id(f.node)]

    # ------------------------------------------------------------- resolution
    def _members(self, ci):
        """Names available on instances of `ci`: methods (own, bound, inherited), class constants,
        annotated fields and every `self.X = ...` / setattr(self, 'X', ...) of its methods."""
        out = set()
        for c in self.prog.class_mro(ci):
            out |= set(c.methods) | set(c.class_consts)
            for b in c.node.body:
                if isinstance(b, ast.AnnAssign) and isinstance(b.target, ast.Name):
                    out.add(b.target.id)
            for f in c.methods.values():
                if not f.params:
                    continue
                me = f.params[0]
                for n in ast.walk(f.node):
                    if isinstance(n, ast.Attribute) and isinstance(n.ctx, ast.Store) and isinstance(n.value, ast.Name) \
                            and n.value.id == me:
                        out.add(n.attr)
                    elif isinstance(n, ast.Call) and A.call_name(n) in ("setattr", "object.__setattr__") and len(n.args) == 3 \
                            and isinstance(n.args[0], ast.Name) and n.args[0].id == me:
                        if isinstance(n.args[1], ast.Constant):
                            out.add(n.args[1].value)
                        elif isinstance(n.args[1], ast.Name):
                            # for name in [...]: setattr(self, name, ...)
                            for m in ast.walk(f.node):
                                if isinstance(m, ast.For) and isinstance(m.target, ast.Name) and m.target.id == n.args[1].id:
                                    it = m.iter
                                    if isinstance(it, ast.Name):
                                        # a module-level tuple / list of names assigned once
                                        tops = [st.value for st in f.module.tree.body if isinstance(st, ast.Assign) and len(st.targets) == 1
                                                and isinstance(st.targets[0], ast.Name) and st.targets[0].id == it.id]
                                        it = tops[0] if len(tops) == 1 else it
                                    if isinstance(it, (ast.List, ast.Tuple)):
                                        out |= {e.value for e in it.elts if isinstance(e, ast.Constant)}
        return out

    def classes_with(self, attrs, caller_module):
        """Classes of layers <= caller's whose instances offer all of `attrs`."""
        lim = self.layer_of(caller_module)
        return [ci for ci, mem in self.class_members.values()
                if self.layer_of(ci.module.name) <= lim and attrs <= mem]

    LAYERS = (("yastn.sym", 0), ("yastn.backend", 0), ("yastn.tn.mps", 2), ("yastn.tn.fpeps", 3), ("yastn", 1))

    @classmethod
    def layer_of(cls, modname):
        for pre, l in cls.LAYERS:
            if modname == pre or modname.startswith(pre + "."):
                return l
        return 1

    def method_candidates(self, name, caller_module=None):
        """Repository methods called `name`.  Layering assumption (DESIGN §3 E0.2): code of package layer L
        (sym/backend < tensor < tn.mps < tn.fpeps) only receives instances of classes defined in layers <= L."""
        c = self.by_name.get(name, [])
        if caller_module is None or not c:
            return c
        lim = self.layer_of(caller_module)
        out = []
        for f in c:
            owner = f.cls if f.cls is not None else f.bound_to[0]
            if self.layer_of(owner.module.name) <= lim:
                out.append(f)
        return out


def is_classmethod(f: FuncInfo):
    return any(d in ("classmethod",) for d in f.decorators)


def is_staticmethod(f: FuncInfo):
    return any(d in ("staticmethod",) for d in f.decorators)


def is_property(f: FuncInfo):
    return any(d == "property" or d.endswith(".setter") or d.endswith(".getter") or d == "cached_property"
               for d in f.decorators)


class FunctionAnalysis:
    def __init__(self, eng: Engine, fi: FuncInfo):
        self.eng = eng
        self.prog = eng.prog
        self.fi = fi
        self.mod: ModuleInfo = fi.module
        self.node = fi.node
        self.params = fi.params
        a = fi.node.args
        self.vararg = a.vararg.arg if a.vararg else None
        self.kwarg = a.kwarg.arg if a.kwarg else None
        self.pidx = {p: i for i, p in enumerate(self.params)}
        self.events: list[WriteEvent] = []
        self.call_sites = []       # (call node, [FuncInfo] | None)
        self.undecided = []
        self.ret = set()
        self.returns_value = False
        self.local_names = set(A.local_bindings(fi.node)) | set(self.params)
        self.func_alias = {}       # local name -> FuncInfo list (routine = _sweep_fn)
        self._record = False
        self._strict_off = False
        self._strict = False       # True while evaluating the target of a write: no immutability shortcuts
        self.cfg = CFG(self.node)
        self.attr_use = self._attr_use()
        self._class_cache = {}
        self.deps = set()          # ids of callee function nodes whose summaries were consulted
        self.uses_getitem = False
        self.unresolved = defaultdict(int)
        self.resolved = 0

    TYPE_PRESERVING = {"shallow_copy", "copy", "clone", "conj", "transpose", "detach", "to", "on_bra", "conjugate_transpose",
                       "consume_transpose", "conj_blocks", "flip_signature", "_replace", "reverse_sites"}

    def _attr_use(self):
        """name -> set of attributes used on it in this function; names linked by `x = y`, `x = y.copy()`
        (type-preserving methods) share one set (duck-typing evidence for receiver-class inference)."""
        parent = {}

        def find(x):
            while parent.get(x, x) != x:
                x = parent[x]
            return x

        def union(a, b):
            ra, rb = find(a), find(b)
            if ra != rb:
                parent[ra] = rb
        use = defaultdict(set)
        for n in ast.walk(self.node):
            if isinstance(n, ast.Attribute) and isinstance(n.value, ast.Name):
                use[n.value.id].add(n.attr)
            elif isinstance(n, ast.Assign) and len(n.targets) == 1 and isinstance(n.targets[0], ast.Name):
                v = n.value
                if isinstance(v, ast.Name):
                    union(n.targets[0].id, v.id)
                elif isinstance(v, ast.Call) and isinstance(v.func, ast.Attribute) and isinstance(v.func.value, ast.Name) \
                        and v.func.attr in self.TYPE_PRESERVING:
                    union(n.targets[0].id, v.func.value.id)
        out = defaultdict(set)
        for k, v in use.items():
            out[find(k)] |= v
        return {k: out[find(k)] for k in set(use) | set(parent)}

    def receiver_classes(self, recv_expr):
        """Repository classes the receiver may be an instance of, or None when unknown."""
        if not isinstance(recv_expr, ast.Name):
            return None
        nm = recv_expr.id
        if nm in self._class_cache:
            return self._class_cache[nm]
        res = None
        if self.params and nm == self.params[0] and (self.fi.cls is not None or self.fi.bound_to) \
                and not is_staticmethod(self.fi):
            owners = [self.fi.cls] if self.fi.cls is not None else list(self.fi.bound_to)
            res = []
            for o in owners:
                res.append(o)
                res.extend(self.prog.subclasses(o))
        else:
            attrs = self.attr_use.get(nm, set()) - {"__class__", "__dict__"}
            if attrs:
                cl = self.eng.classes_with(attrs, self.mod.name)
                if cl:
                    res = cl
        self._class_cache[nm] = res
        return res

    def typed_candidates(self, recv_expr, attr):
        """Methods `attr` may resolve to for this receiver: by inferred class when possible, else by name."""
        cl = self.receiver_classes(recv_expr)
        if cl is None:
            return self.eng.method_candidates(attr, self.mod.name)
        out = []
        for c in cl:
            m = self.prog.lookup_method(c, attr)
            if m is not None and m not in out and id(m.node) in self.eng.summ or (m is not None and m not in out):
                out.append(m)
        return out

    # ------------------------------------------------------------------ state
    def init_state(self):
        st = {}
        for p, i in self.pidx.items():
            if p == self.vararg:
                # tuple of caller's positional objects
                st[p] = Val({wrap(P(i), "*"), F}, {"tuple"})
            elif p == self.kwarg:
                st[p] = Val({P(i)}, {"dict"})
            else:
                st[p] = Val({P(i)})
        return st

    @staticmethod
    def join_state(a, b):
        if a is None:
            return dict(b)
        out = dict(a)
        for k, v in b.items():
            if k == STALE or k == MUST:
                continue
            if k in out:
                if not (out[k] == v):
                    out[k] = out[k].join(v)
            else:
                out[k] = v
        # guarded-copy facts: an entry (x, conds, os) says "origins `os` of x are possible only if every
        # condition of `conds` was false".  It survives a join if the other side carries the same entry or
        # has replaced those origins of x altogether.
        sa_, sb_ = a.get(STALE, frozenset()), b.get(STALE, frozenset())
        keep = set()
        for ent, other, oth_st in [(e, sb_, b) for e in sa_] + [(e, sa_, a) for e in sb_]:
            if ent in other:
                keep.add(ent)
            else:
                x, conds, os_ = ent
                if x in oth_st and not (oth_st[x].o & os_):
                    keep.add(ent)
        if keep:
            out[STALE] = frozenset(keep)
        else:
            out.pop(STALE, None)
        ma, mb = dict(a.get(MUST, ())), dict(b.get(MUST, ()))
        both = frozenset((k, ma[k].join(mb[k])) for k in ma.keys() & mb.keys())
        if both:
            out[MUST] = both
        else:
            out.pop(MUST, None)
        return out

    @staticmethod
    def state_eq(a, b):
        if a is None or b is None:
            return a is b
        if a.keys() != b.keys():
            return False
        return all(a[k] == b[k] for k in a)

    # ------------------------------------------------- guarded-copy idiom
    @staticmethod
    def _disj(test):
        if isinstance(test, ast.BoolOp) and isinstance(test.op, ast.Or):
            out = []
            for v in test.values:
                out.extend(FunctionAnalysis._disj(v))
            return out
        return [test]

    @staticmethod
    def _conj(test):
        if isinstance(test, ast.BoolOp) and isinstance(test.op, ast.And):
            out = []
            for v in test.values:
                out.extend(FunctionAnalysis._conj(v))
            return out
        return [test]

    @staticmethod
    def _implies(c2, c1_text, c1_node):
        """Does atom c2 imply atom c1 ?  Same text, or `X >= a` => `X >= b` for constants a >= b (and <=, >, <)."""
        if A.text(c2) == c1_text:
            return True
        if isinstance(c2, ast.Compare) and isinstance(c1_node, ast.Compare) and len(c2.ops) == 1 and len(c1_node.ops) == 1 \
                and type(c2.ops[0]) is type(c1_node.ops[0]) and A.text(c2.left) == A.text(c1_node.left):
            a, b = A.neg_const(c2.comparators[0]), A.neg_const(c1_node.comparators[0])
            if a is not None and b is not None:
                if isinstance(c2.ops[0], (ast.GtE, ast.Gt)):
                    return a >= b
                if isinstance(c2.ops[0], (ast.LtE, ast.Lt)):
                    return a <= b
        return False

    def refine(self, st, ifnode, label):
        """Edge refinement for `if C:` — implements the guarded-copy idiom
              if A or B: x = x.copy()      ...      if B: x[k] = v
        (DESIGN G-4).  On the false edge of an else-less `if` whose body rebinds x, the current shared
        origins of x are recorded as 'possible only if C is false'; on the true edge of a later test whose
        every disjunct implies a disjunct of C those origins are removed."""
        stale = st.get(STALE, frozenset())
        if label == "T":
            # `isinstance(x, dict|list|set|tuple)` among the conjuncts of the test types a local of unknown kind on the true
            # edge, so that `x.copy()` there is the container's shallow copy and not a repository class's deep one
            for cj in self._conj(ifnode.test):
                if isinstance(cj, ast.Call) and A.call_name(cj) == "isinstance" and len(cj.args) == 2 \
                        and isinstance(cj.args[0], ast.Name) and isinstance(cj.args[1], ast.Name) \
                        and cj.args[1].id in ("dict", "list", "set", "tuple") and cj.args[0].id in st \
                        and isinstance(st[cj.args[0].id], Val):
                    v_ = st[cj.args[0].id]
                    kind_ = "list" if cj.args[1].id == "tuple" else cj.args[1].id
                    if kind_ not in v_.k:
                        st[cj.args[0].id] = Val(v_.o, set(v_.k) | {kind_})
            if stale:
                d2 = self._disj(ifnode.test)
                new = set()
                for ent in stale:
                    x, conds, os_ = ent
                    ok = all(any(any(self._implies(cj, ct, cn) for cj in self._conj(dj)) for ct, cn in conds) for dj in d2)
                    if ok and x in st:
                        st[x] = Val(st[x].o - os_, st[x].k)
                    else:
                        new.add(ent)
                if new:
                    st[STALE] = frozenset(new)
                else:
                    st.pop(STALE, None)
            return st
        # false edge
        if not ifnode.orelse:
            rebound = set()
            for b in ifnode.body:
                for n in A.walk_local(b):
                    if isinstance(n, ast.Assign):
                        for t in n.targets:
                            if isinstance(t, ast.Name):
                                rebound.add(t.id)
            if rebound:
                conds = tuple((A.text(c), c) for c in self._disj(ifnode.test))
                add = set(stale)
                for x in rebound:
                    if x in st:
                        os_ = frozenset(o for o in st[x].o if is_shared_param(o))
                        if os_:
                            add.add((x, conds, os_))
                if add:
                    st[STALE] = frozenset(add)
        return st

    def invalidate(self, st, name, key=None):
        """`name` was rebound (key None) or written under `key` ('*' unknown): drop the guarded-copy facts
        that depend on it."""
        stale = st.get(STALE)
        if not stale:
            return
        keep = set()
        for ent in stale:
            x, conds, os_ = ent
            dead = False
            if key is None:
                dead = x == name or any(name in {n.id for n in ast.walk(cn) if isinstance(n, ast.Name)}
                                        for _, cn in conds)
            else:
                for ct, cn in conds:
                    if name in {n.id for n in ast.walk(cn) if isinstance(n, ast.Name)}:
                        if key == "*" or f"{name}['{key}']" in ct or f'{name}["{key}"]' in ct:
                            dead = True
            if not dead:
                keep.add(ent)
        if keep:
            st[STALE] = frozenset(keep)
        else:
            st.pop(STALE, None)

    # -------------------------------------------------------------------- run
    def run(self):
        cfg = self.cfg
        self.unresolved = defaultdict(int)
        self.resolved = 0
        instate = {cfg.entry.id: self.init_state()}
        work = [cfg.entry.id]
        order = 0
        while work:
            order += 1
            if order > 20000:
                raise AnalysisError(f"dataflow does not converge in {self.fi.qualname}")
            n = work.pop()
            st = instate.get(n)
            if st is None:
                continue
            out = self.transfer(cfg.nodes[n], dict(st))
            for s in cfg.succ[n]:
                out_s = out
                if n in cfg.if_of:
                    out_s = self.refine(dict(out), cfg.if_of[n], cfg.edge_label.get((n, s), "F"))
                new = self.join_state(instate.get(s), out_s)
                if not self.state_eq(instate.get(s), new):
                    instate[s] = new
                    work.append(s)
        # final pass: record events
        self._record = True
        self.events = []
        self.call_sites = []
        self.ret = set()
        self.union_state = {}
        for n in sorted(instate):
            st = instate[n]
            self.union_state = self.join_state(self.union_state, st)
        for n in sorted(instate):
            self.transfer(cfg.nodes[n], dict(instate[n]))
        # nested defs / lambdas are analysed with the flow-insensitive union state
        for sub in ast.walk(self.node):
            if sub is not self.node and isinstance(sub, (ast.FunctionDef, ast.AsyncFunctionDef)):
                self.nested(sub)
        self.instate = instate
        self._record = False
        self.finish_summary(instate)

    def nested(self, sub):
        st = dict(self.union_state)
        a = sub.args
        for x in a.posonlyargs + a.args + a.kwonlyargs + ([a.vararg] if a.vararg else []) + ([a.kwarg] if a.kwarg else []):
            st[x.arg] = FRESH
        for stmt in sub.body:
            for n in ast.walk(stmt):
                if isinstance(n, ast.stmt) and not isinstance(n, (ast.FunctionDef, ast.ClassDef)):
                    try:
                        self.exec_stmt(n, st, nested=True)
                    except AnalysisError:
                        raise

    def finish_summary(self, instate):
        s = self.eng.summary(self.fi)
        kw_i = self.pidx.get(self.kwarg) if self.kwarg else None
        va_i = self.pidx.get(self.vararg) if self.vararg else None
        for ev in self.events:
            for o in ev.targets:
                if is_shared_param(o):
                    i, path = o[0][1], o[2]
                    if i in (kw_i, va_i) and not path:
                        continue        # the **kwargs dict / *args tuple object itself is fresh per call
                    if (self.fi.short, self.params[i], path) in self.eng.exempt:
                        hit = (self.fi.short, self.params[i], path, getattr(ev.node, "lineno", 0))
                        if hit not in self.eng.exempt_hits:
                            self.eng.exempt_hits.append(hit)
                        continue
                    s.mut[i].add(path)
                    if len(s.mut_sites[i]) < 6:
                        site = (self.fi.relpath, getattr(ev.node, "lineno", 0), ev.text)
                        if site not in s.mut_sites[i]:
                            s.mut_sites[i].append(site)
                elif is_shared_global(o):
                    s.gwrites.add(o[0][1])
                elif is_shared_cached(o):
                    rec = (self.fi, ev, o)
                    if not any(r[0] is self.fi and r[1].node is ev.node and r[2] == o for r in self.eng.cached_writes):
                        self.eng.cached_writes.append(rec)
        s.ret |= {o for o in self.ret if o[0] != "F"}
        s.returns_value = s.returns_value or self.returns_value
        if self.fi.name in ("__init__", "__post_init__", "__new__") and self.params:
            ex = instate.get(self.cfg.exit_return.id)
            if ex and self.params[0] in ex:
                for o in ex[self.params[0]].o:
                    if o[0] != "F" and o[0] != ("P", 0):
                        s.self_contains.add(o)

    # --------------------------------------------------------------- transfer
    def transfer(self, node, st):
        k = node.kind
        x = node.ast
        if x is None:
            return st
        if k == "test":
            self.ev(x, st)
            return st
        if k == "loop":   # For header
            it = self.ev(x.iter, st)
            self.bind(x.target, Val(dset(it.o), self.elem_kind(it)), st)
            return st
        if k == "with":
            for item in x.items:
                v = self.ev(item.context_expr, st)
                if item.optional_vars is not None:
                    self.bind(item.optional_vars, v, st)
            return st
        if k == "except":
            if x.name:
                st[x.name] = FRESH
            return st
        if k == "def":
            return st
        self.exec_stmt(x, st)
        return st

    @staticmethod
    def elem_kind(v: Val):
        return frozenset({"pair"}) if "pairs" in v.k else frozenset()

    def exec_stmt(self, x, st, nested=False):
        if isinstance(x, ast.Assign):
            v = self.ev(x.value, st)
            for t in x.targets:
                self.assign(t, v, st, x, value_node=x.value)
        elif isinstance(x, ast.AnnAssign):
            if x.value is not None:
                v = self.ev(x.value, st)
                self.assign(x.target, v, st, x, value_node=x.value)
        elif isinstance(x, ast.AugAssign):
            v = self.ev(x.value, st)
            t = x.target
            if isinstance(t, ast.Name):
                cur = st.get(t.id) or self.name_val(t.id, st)
                if "arr" in cur.k or "list" in cur.k or "dict" in cur.k or "set" in cur.k:
                    self.write(x, "in-place operator on array/container", cur.o, x)
                    if "arr" not in cur.k:
                        st[t.id] = cur.join(Val(sset(v.o), cur.k))
                elif any(is_shared_param(o) for o in cur.o) and not ("imm" in cur.k or "tuple" in cur.k):
                    if self._record:
                        self.undecided.append((x, "augmented assignment on a name of unknown kind with parameter origin"))
                    st[t.id] = Val(FSET | cur.o, cur.k)
                else:
                    st[t.id] = Val(FSET, cur.k)
            elif isinstance(t, ast.Attribute):
                base = self.ev_target(t.value, st)
                self.write(x, "augmented attribute store", base.o, x)
            elif isinstance(t, ast.Subscript):
                base = self.ev_target(t.value, st)
                self.ev(t.slice, st)
                self.write(x, "augmented item store", base.o, x)
        elif isinstance(x, ast.Delete):
            for t in x.targets:
                if isinstance(t, ast.Subscript):
                    base = self.ev_target(t.value, st)
                    self.write(x, "item delete", base.o, x)
                elif isinstance(t, ast.Attribute):
                    base = self.ev_target(t.value, st)
                    self.write(x, "attribute delete", base.o, x)
                elif isinstance(t, ast.Name):
                    st.pop(t.id, None)
        elif isinstance(x, ast.Return):
            if x.value is not None:
                v = self.ev(x.value, st)
                if not (isinstance(x.value, ast.Constant) and x.value.value is None):
                    self.returns_value = True
                    self.ret |= set(v.o)
        elif isinstance(x, ast.Expr):
            if isinstance(x.value, (ast.Yield, ast.YieldFrom)):
                self.returns_value = True
                if x.value.value is not None:
                    v = self.ev(x.value.value, st)
                    self.ret |= set(v.o)
            else:
                self.ev(x.value, st)
        elif isinstance(x, (ast.Raise, ast.Assert)):
            for c in ast.iter_child_nodes(x):
                if isinstance(c, ast.expr):
                    self.ev(c, st)
        elif isinstance(x, (ast.Import, ast.ImportFrom)):
            for al in x.names:
                st[al.asname or al.name.split(".")[0]] = FRESH
        elif isinstance(x, (ast.Global, ast.Nonlocal)):
            if self._record:
                self.undecided.append((x, "global/nonlocal statement"))
        elif nested and isinstance(x, (ast.If, ast.While)):
            self.ev(x.test, st)
        elif nested and isinstance(x, ast.For):
            it = self.ev(x.iter, st)
            self.bind(x.target, Val(dset(it.o), self.elem_kind(it)), st)
        elif nested and isinstance(x, ast.With):
            for item in x.items:
                v = self.ev(item.context_expr, st)
                if item.optional_vars is not None:
                    self.bind(item.optional_vars, v, st)
        # Pass, Break, Continue, nested compound statements (handled by the CFG): nothing

    def ev_target(self, e, st):
        """Origin of an object that is about to be written: fields that are immutable *by convention* are
        tracked here, so that a write into them is still seen."""
        old, self._strict = self._strict, True
        try:
            return self.ev(e, st)
        finally:
            self._strict = old

    def write(self, node, kind, targets, text, via=None):
        if self._record:
            if not isinstance(text, str):
                text = A.short(text)
            self.events.append(WriteEvent(node, kind, targets, text, via))

    def bind(self, target, v: Val, st):
        if isinstance(target, ast.Name):
            st[target.id] = v
            self.invalidate(st, target.id)
            self.must_drop(st, target.id)
        elif isinstance(target, (ast.Tuple, ast.List)):
            for e in target.elts:
                self.bind(e, Val(v.o if "pair" in v.k else dset(v.o)), st)
        elif isinstance(target, ast.Starred):
            self.bind(target.value, Val(sset(v.o), {"list"}), st)
        elif isinstance(target, ast.Attribute):
            base = self.ev(target.value, st)
            self.write(target, "attribute store (loop/with target)", base.o, target)
        elif isinstance(target, ast.Subscript):
            base = self.ev(target.value, st)
            self.write(target, "item store (loop/with target)", base.o, target)

    def assign(self, t, v: Val, st, stmt, value_node=None):
        if isinstance(t, ast.Name):
            st[t.id] = v
            self.invalidate(st, t.id)
            self.must_drop(st, t.id)
            # remember local aliases of repository functions: routine = _sweep
            if value_node is not None and isinstance(value_node, (ast.Name, ast.Attribute)):
                r = self.resolve_expr_static(value_node)
                if isinstance(r, FuncInfo):
                    self.func_alias.setdefault(t.id, [])
                    if r not in self.func_alias[t.id]:
                        self.func_alias[t.id].append(r)
        elif isinstance(t, (ast.Tuple, ast.List)):
            if value_node is not None and isinstance(value_node, (ast.Tuple, ast.List)) \
                    and len(value_node.elts) == len(t.elts) \
                    and not any(isinstance(e, ast.Starred) for e in list(value_node.elts) + list(t.elts)):
                vals = [self.ev(e, st) for e in value_node.elts]
                for e, vv in zip(t.elts, vals):
                    self.assign(e, vv, st, stmt)
            else:
                for e in t.elts:
                    if isinstance(e, ast.Starred):
                        self.assign(e.value, Val(sset(v.o), {"list"}), st, stmt)
                    else:
                        self.assign(e, Val(dset(v.o)), st, stmt)
        elif isinstance(t, ast.Attribute):
            base = self.ev_target(t.value, st)
            self.write(stmt, "attribute store", base.o, stmt)
            self.absorb(t.value, v, st, field=self.field_of(t))
        elif isinstance(t, ast.Subscript):
            base = self.ev_target(t.value, st)
            self.ev(t.slice, st)
            self.write(stmt, "item store", base.o, stmt)
            if isinstance(t.value, ast.Name) and not ({"arr"} & base.k):
                self.must_drop(st, t.value.id)
                tx_ = A.text(t)
                st[MUST] = frozenset(x for x in st.get(MUST, frozenset()) if x[0] != tx_) | {(tx_, v)}
            if isinstance(t.value, ast.Name):
                for key in (self.const_names(t.slice) if isinstance(t.slice, (ast.Name, ast.Constant)) else ["*"]):
                    self.invalidate(st, t.value.id, key)
            setters = [] if ({"arr", "list", "dict"} & base.k) else self.typed_candidates(t.value, "__setitem__")
            if setters and isinstance(t.value, ast.Name) and self.receiver_classes(t.value) is not None:
                # x[k] = v on an instance of a repository class: effect given by its __setitem__
                for f in setters:
                    sm = self.eng.summary(f)
                    self.deps.add(id(f.node))
                    for m in sm.mut.get(0, ()):
                        targets = dpath(base.o, m)
                        self.write(stmt, f"item store through {f.short}() which writes .{'.'.join(m)}", targets, stmt,
                                   via=(f, 0, m, sm.mut_sites.get(0, [])[:3]))
                        self.absorb_path(t.value, v, st, tuple(m) + ("*",))
            elif "arr" not in base.k:
                self.absorb(t.value, v, st, field=self.field_of(t))
        elif isinstance(t, ast.Starred):
            self.assign(t.value, v, st, stmt)

    @staticmethod
    def field_of(node):
        """Field name used by an Attribute / Subscript access ('*' when not a constant)."""
        if isinstance(node, ast.Attribute):
            return "_data" if node.attr == "data" else node.attr
        if isinstance(node, ast.Subscript):
            sl = node.slice
            if isinstance(sl, ast.Constant) and isinstance(sl.value, str):
                return sl.value
        return "*"

    def absorb_path(self, name_expr, v: Val, st, path):
        """v is now reachable from local `name_expr` through the fields `path`."""
        if isinstance(name_expr, ast.Name) and name_expr.id in st:
            add = set()
            for o in v.o:
                w = o
                for f in reversed(path):
                    w = wrap(w, f)
                if w[0] != "F":
                    add.add(w)
            if add:
                old = st[name_expr.id]
                st[name_expr.id] = Val(old.o | add, old.k)

    def absorb(self, container_expr, v: Val, st, field="*"):
        """container/object now holds v: weak update of the root local name."""
        fields = [field]
        cur = container_expr
        while isinstance(cur, (ast.Attribute, ast.Subscript)):
            fields.append(self.field_of(cur))
            cur = cur.value
        if isinstance(cur, ast.Name) and cur.id in st:
            add = set()
            for o in v.o:
                w = o
                for f in fields:
                    w = wrap(w, f)
                if w[0] != "F":
                    add.add(w)
            if add:
                old = st[cur.id]
                st[cur.id] = Val(old.o | add, old.k)

    # ----------------------------------------------------------- expressions
    def name_val(self, name, st):
        if name in st:
            return st[name]
        if name in self.local_names:
            return FRESH        # not yet bound on this path
        r = self.prog.resolve(self.mod, name)
        if isinstance(r, tuple) and r[0] == "const":
            vals = r[2]
            if any(self.mutable_literal(v) for v in vals):
                return Val({(("G", f"{r[1].name}.{name}"), (), ())})
        return FRESH

    @staticmethod
    def mutable_literal(v):
        if isinstance(v, (ast.List, ast.Dict, ast.Set, ast.ListComp, ast.DictComp, ast.SetComp)):
            return True
        if isinstance(v, ast.Call):
            n = A.call_name(v)
            return n in ("dict", "list", "set", "defaultdict", "OrderedDict", "deque", "Counter", "np.zeros",
                         "np.array", "np.ones", "np.empty", "collections.defaultdict", "collections.OrderedDict")
        return False

    def ev(self, e, st) -> Val:
        m = getattr(self, "ev_" + type(e).__name__, None)
        if m is None:
            for c in ast.iter_child_nodes(e):
                if isinstance(c, ast.expr):
                    self.ev(c, st)
            return FRESH
        return m(e, st)

    def ev_Constant(self, e, st):
        return Val(FSET, {"imm"})

    def ev_Name(self, e, st):
        return self.name_val(e.id, st)

    def ev_JoinedStr(self, e, st):
        for v in e.values:
            if isinstance(v, ast.FormattedValue):
                self.ev(v.value, st)
        return Val(FSET, {"imm"})

    def ev_Tuple(self, e, st):
        o = set()
        for x in e.elts:
            v = self.ev(x.value if isinstance(x, ast.Starred) else x, st)
            o |= (sset(v.o) if isinstance(x, ast.Starred) else wset(v.o))
        return Val(o | FSET, {"tuple"})

    def ev_List(self, e, st):
        v = self.ev_Tuple(e, st)
        return Val(v.o, {"list"})

    def ev_Set(self, e, st):
        v = self.ev_Tuple(e, st)
        return Val(v.o, {"set"})

    def ev_Dict(self, e, st):
        o = set()
        for k, x in zip(e.keys, e.values):
            if k is not None:
                self.ev(k, st)
                key = k.value if isinstance(k, ast.Constant) and isinstance(k.value, str) else "*"
                o |= wset(self.ev(x, st).o, key)
            else:
                o |= sset(self.ev(x, st).o)
        return Val(o | FSET, {"dict"})

    def _comp(self, e, st, elts, kind):
        st2 = dict(st)
        for g in e.generators:
            it = self.ev(g.iter, st2)
            self.bind(g.target, Val(dset(it.o), self.elem_kind(it)), st2)
            for c in g.ifs:
                self.ev(c, st2)
        o = set()
        for x in elts:
            o |= wset(self.ev(x, st2).o)
        return Val(o | FSET, {kind})

    def ev_ListComp(self, e, st):
        return self._comp(e, st, [e.elt], "list")

    def ev_SetComp(self, e, st):
        return self._comp(e, st, [e.elt], "set")

    def ev_GeneratorExp(self, e, st):
        return self._comp(e, st, [e.elt], "gen")

    def ev_DictComp(self, e, st):
        return self._comp(e, st, [e.value], "dict")

    IMMUTABLE_ATTRS = {"shape", "ndim", "size", "dtype", "N", "Nx", "Ny", "nr_phys", "ndim_n", "isdiag", "s", "n",
                       "struct", "slices", "mfs", "hfs", "trans", "_trans", "config", "factor", "pC", "first", "last",
                       "device", "yastn_dtype", "itemsize", "nbytes", "sym", "fermionic", "backend", "__name__",
                       "dims", "boundary", "SYM_ID", "NSYM", "s_n", "requires_grad", "__class__", "_N", "_nr_phys",
                       "default_dtype", "default_device", "default_fusion", "force_fusion", "tensordot_policy",
                       # fields of the NamedTuples _struct/_slc/_Fusion and of the frozen Leg/LegMeta (tuples of ints)
                       "D", "t", "Dp", "slcs", "tree", "hf", "mf", "legs", "diag",
                       # lattice geometry objects are value objects (tuples of Sites/Bonds, constant tables)
                       "geometry",
                       # MPS bookkeeping: 'on_bra' marker string
                       "flag"}

    def ev_Attribute(self, e, st):
        base = self.ev(e.value, st)
        kinds = set()
        if e.attr in ("_data", "data") or "arr" in base.k and e.attr in ("real", "imag", "T", "mT", "H"):
            kinds.add("arr")
        if "arr" in base.k and e.attr in ("real", "imag", "T", "mT", "H"):
            return Val(base.o, kinds)              # views of the same storage
        if e.attr in ("T", "H"):
            # Tensor.T / Tensor.H / Mps.T / Mps.H properties: new object sharing the contents
            return Val(sset(base.o))
        if e.attr in self.IMMUTABLE_ATTRS and not self._strict:
            return Val(FSET, {"imm"})      # immutable by construction (tuples, NamedTuples, numbers, modules)
        return Val(dset(base.o, self.field_of(e)), kinds)

    def getitem_summaries(self):
        self.uses_getitem = True
        return [self.eng.summary(f) for f in self.eng.method_candidates("__getitem__", self.mod.name)]

    def must_drop(self, st, name):
        m = st.get(MUST)
        if m:
            import re as _re
            pat = _re.compile(r"\b" + _re.escape(name) + r"\b")
            keep = frozenset(x for x in m if not pat.search(x[0]))
            if keep:
                st[MUST] = keep
            else:
                st.pop(MUST, None)

    def ev_Subscript(self, e, st):
        if st.get(MUST) and isinstance(e.value, ast.Name) and not self._strict_off:
            tx = A.text(e)
            for k_, v_ in st[MUST]:
                if k_ == tx:
                    self.ev(e.slice, st)
                    return v_
        base = self.ev(e.value, st)
        self.ev(e.slice, st)
        if "arr" in base.k:
            return Val(base.o, {"arr"})            # a view of the same storage
        if "imm" in base.k and len(base.k) == 1:
            return Val(FSET, {"imm"})
        key = self.field_of(e)
        out = set(FSET)
        if key == "*" and not ({"list", "dict", "tuple", "set", "gen"} & base.k):
            cl = self.receiver_classes(e.value)
            if cl:
                getters = []
                for c in cl:
                    g = self.prog.lookup_method(c, "__getitem__")
                    if g is not None and g not in getters:
                        getters.append(g)
                if getters:
                    # x[k] on an instance of a repository class: what its __getitem__ returns
                    for g in getters:
                        self.deps.add(id(g.node))
                        for r in self.eng.summary(g).ret:
                            out |= self.instantiate(r, {0: base})
                    return Val(out)
        for o in base.o:
            if o[0] == "F":
                continue
            tags = o[1]
            if tags and tags[0] not in ("*", "=") and key == "*":
                # an instance with named fields: only a repository __getitem__ can subscript it
                for sm in self.getitem_summaries():
                    for r in sm.ret:
                        if r[0] == ("P", 0):
                            out |= self.instantiate(r, {0: Val({o})})
                continue
            x = deref(o, key)
            if x is not None:
                out.add(x)
        return Val(out)

    def ev_Slice(self, e, st):
        for c in (e.lower, e.upper, e.step):
            if c is not None:
                self.ev(c, st)
        return FRESH

    def ev_Starred(self, e, st):
        return self.ev(e.value, st)

    def ev_BinOp(self, e, st):
        l = self.ev(e.left, st)
        r = self.ev(e.right, st)
        if isinstance(e.op, ast.Add) and (({"list", "tuple"} & l.k) or ({"list", "tuple"} & r.k)):
            return Val(sset(l.o) | sset(r.o), (l.k | r.k) & {"list", "tuple"})
        if isinstance(e.op, ast.Mult) and ({"list", "tuple"} & (l.k | r.k)):
            return Val(sset(l.o) | sset(r.o), (l.k | r.k) & {"list", "tuple"})
        if isinstance(e.op, ast.BitOr) and ({"dict", "set"} & (l.k | r.k)):
            return Val(sset(l.o) | sset(r.o), (l.k | r.k) & {"dict", "set"})
        k = {"arr"} if "arr" in (l.k | r.k) else set()
        return Val(FSET, k)

    def ev_UnaryOp(self, e, st):
        v = self.ev(e.operand, st)
        return Val(FSET, {"arr"} if "arr" in v.k else {"imm"})

    def ev_BoolOp(self, e, st):
        out = Val(frozenset())
        for v in e.values:
            out = out.join(self.ev(v, st))
        return out

    def ev_Compare(self, e, st):
        self.ev(e.left, st)
        for c in e.comparators:
            self.ev(c, st)
        return Val(FSET, {"imm"})

    def ev_IfExp(self, e, st):
        self.ev(e.test, st)
        return self.ev(e.body, st).join(self.ev(e.orelse, st))

    def ev_Lambda(self, e, st):
        st2 = dict(st)
        a = e.args
        for x in a.posonlyargs + a.args + a.kwonlyargs:
            st2[x.arg] = FRESH
        self.ev(e.body, st2)
        return FRESH

    def ev_NamedExpr(self, e, st):
        v = self.ev(e.value, st)
        self.bind(e.target, v, st)
        return v

    def ev_Await(self, e, st):
        return self.ev(e.value, st)

    def ev_Yield(self, e, st):
        if e.value is not None:
            v = self.ev(e.value, st)
            self.ret |= set(v.o)
        self.returns_value = True
        return FRESH

    def ev_YieldFrom(self, e, st):
        v = self.ev(e.value, st)
        self.ret |= set(dset(v.o))
        self.returns_value = True
        return FRESH

    # ------------------------------------------------------------------ calls
    def resolve_expr_static(self, node):
        """Name / attribute chain -> FuncInfo | ClassInfo | ModuleInfo | external tuple | None (no locals)."""
        if isinstance(node, ast.Name):
            if node.id in self.local_names:
                return None
            return self.prog.resolve(self.mod, node.id)
        if isinstance(node, ast.Attribute):
            c = A.chain(node)
            if c and c[0] not in self.local_names:
                return self.prog.resolve_attr_chain(self.mod, node)
        return None

    def backend_func(self, name):
        out = []
        for b in self.eng.backends:
            if name in b.funcs:
                out.append(b.funcs[name])
        return out

    def resolve_call(self, call: ast.Call, st):
        """-> (kind, payload)
        kind 'funcs'  payload = (list[FuncInfo], receiver_expr | None, ctor: bool)
        kind 'builtin' payload = name ; kind 'np' payload = (module alias, func name)
        kind 'method' payload = (receiver expr, attr)   -- unresolved to repo functions: generic method handling
        kind 'unknown'"""
        f = call.func
        if isinstance(f, ast.Name):
            nm = f.id
            if nm in self.func_alias and nm in self.local_names:
                return "funcs", (self.func_alias[nm], None, False)
            if nm in self.local_names:
                return "unknown", nm
            r = self.prog.resolve(self.mod, nm)
            if isinstance(r, FuncInfo):
                return "funcs", ([r], None, False)
            if isinstance(r, ClassInfo):
                return "ctor", r
            if nm in BUILTIN_FRESH or nm in BUILTIN_SHAL or nm in ("getattr", "setattr", "next", "map", "delattr"):
                return "builtin", nm
            if isinstance(r, tuple) and r[0] == "external":
                last = r[1].rsplit(".", 1)[-1]
                if last in BUILTIN_SHAL or last in BUILTIN_FRESH:
                    return "builtin", last
                if last in ("deepcopy",):
                    return "builtin", "deepcopy"
                if last == "copy":
                    return "builtin", "copy.copy"
                return "external", r[1]
            return "unknown", nm
        if isinstance(f, ast.Attribute):
            attr = f.attr
            base = f.value
            # super().m(...)
            if isinstance(base, ast.Call) and isinstance(base.func, ast.Name) and base.func.id == "super":
                ci = self.fi.cls
                if ci is not None:
                    mro = self.prog.class_mro(ci)[1:]
                    for c in mro:
                        if attr in c.methods:
                            return "funcs", ([c.methods[attr]], ast.Name(id=self.params[0], ctx=ast.Load()), False)
                return "unknown", f"super().{attr}"
            # type(self)(...) handled by ev_Call on func Call
            ch = A.chain(f)
            if ch:
                # backend dispatch:  X.config.backend.f / backend.f / config.backend.f
                if len(ch) >= 2 and ch[-2] == "backend":
                    fs = self.backend_func(attr)
                    if fs:
                        return "funcs", (fs, None, False)
                    return "external", "backend." + attr
                if ch[0] not in self.local_names:
                    r = self.prog.resolve_attr_chain(self.mod, f)
                    if isinstance(r, FuncInfo):
                        # Class.method(...) / module.func(...)
                        owner = self.prog.resolve_attr_chain(self.mod, base) if isinstance(base, ast.Attribute) \
                            else self.prog.resolve(self.mod, base.id)
                        if isinstance(owner, ClassInfo) and is_classmethod(r):
                            return "funcs", ([r], "CLS", False)
                        return "funcs", ([r], None, False)
                    if isinstance(r, ClassInfo):
                        return "ctor", r
                    root = self.prog.resolve(self.mod, ch[0])
                    if isinstance(root, tuple) and root[0] == "external":
                        full = root[1] + "." + ".".join(ch[1:])
                        if full in ("copy.deepcopy",):
                            return "builtin", "deepcopy"
                        if full in ("copy.copy",):
                            return "builtin", "copy.copy"
                        if root[1].split(".")[0] in ("numpy", "torch", "scipy"):
                            return "np", (root[1], attr, ch)
                        if attr in BUILTIN_SHAL:
                            return "builtin", attr
                        return "external", full
                    if isinstance(root, ModuleInfo):
                        return "external", ".".join(ch)
                if ch[0] == "cls" or (ch[0] == "self" and False):
                    pass
            # cls.m(...) / self.m(...) inside a class
            if isinstance(base, ast.Name) and self.params and base.id == self.params[0] and self.fi.cls is not None:
                ci = self.fi.cls
                cands = []
                m0 = self.prog.lookup_method(ci, attr)
                if m0 is not None:
                    cands.append(m0)
                for sc in self.prog.subclasses(ci):
                    if attr in sc.methods and sc.methods[attr] not in cands:
                        cands.append(sc.methods[attr])
                if cands:
                    if is_classmethod(self.fi) or base.id == "cls":
                        return "funcs", (cands, "CLS", False)
                    return "funcs", (cands, base, False)
            return "method", (base, attr)
        if isinstance(f, ast.Call):
            # type(self)(...)  /  lru_cache(n)(f)
            if isinstance(f.func, ast.Name) and f.func.id == "type" and len(f.args) == 1 and self.fi.cls is not None \
                    and isinstance(f.args[0], ast.Name) and self.params and f.args[0].id == self.params[0]:
                return "ctor", self.fi.cls
            if isinstance(f.func, ast.Name) and f.func.id == "type":
                return "ctor_any", None
        return "unknown", A.short(f, 40)

    READER_METHODS = {"items", "keys", "values", "get", "copy", "index", "count", "__len__", "__contains__"}

    def ev_Call(self, call, st):
        if st.get(MUST):
            f_ = call.func
            names = [a.id for a in call.args if isinstance(a, ast.Name)] + \
                    [k.value.id for k in call.keywords if isinstance(k.value, ast.Name)]
            if isinstance(f_, ast.Attribute) and isinstance(f_.value, ast.Name) and f_.attr not in self.READER_METHODS:
                names.append(f_.value.id)
            if not (isinstance(f_, ast.Name) and f_.id in BUILTIN_FRESH | BUILTIN_SHAL):
                for n_ in names:
                    self.must_drop(st, n_)
        kind, payload = self.resolve_call(call, st)
        argv = [self.ev(a.value if isinstance(a, ast.Starred) else a, st) for a in call.args]
        kwv = {}
        starkw = []
        for kw in call.keywords:
            v = self.ev(kw.value, st)
            if kw.arg is None:
                starkw.append(v)
            else:
                kwv[kw.arg] = v
        # out= keyword writes its argument, whatever the callee
        if "out" in kwv and kind in ("np", "external", "method", "unknown"):
            self.write(call, "out= argument", kwv["out"].o, call)
        # scipy.linalg `overwrite_a=True` / `overwrite_b=True` (and np `copy=False` on asarray-like calls are reads, not writes):
        # LAPACK may use the operand's memory as workspace, i.e. the call writes its positional argument
        if kind in ("np", "external", "method", "unknown"):
            for kwn, pos in (("overwrite_a", 0), ("overwrite_b", 1), ("overwrite_x", 0), ("overwrite_ab", 0), ("overwrite_v", 0)):
                kw_ = next((k for k in call.keywords if k.arg == kwn), None)
                if kw_ is not None and not (isinstance(kw_.value, ast.Constant) and kw_.value.value in (False, None, 0)) and len(argv) > pos:
                    self.write(call, f"{kwn}= lets the library overwrite the operand", argv[pos].o, call)
        if kind == "funcs":
            fs, recv, _ = payload
            self.resolved += 1
            if self._record:
                self.call_sites.append((call, fs))
            out = Val(frozenset())
            for f in fs:
                out = out.join(self.apply_summary(call, f, recv, argv, kwv, starkw, st))
            return out if out.o else FRESH
        if kind == "ctor":
            self.resolved += 1
            return self.construct(call, payload, argv, kwv, starkw, st)
        if kind == "ctor_any":
            o = set()
            for v in argv + list(kwv.values()) + starkw:
                o |= wset(v.o)
            return Val(o | FSET)
        if kind == "builtin":
            self.resolved += 1
            return self.builtin(call, payload, argv, kwv, st)
        if kind == "np":
            self.resolved += 1
            return self.numpy_call(call, payload, argv, kwv)
        if kind == "method":
            return self.method_call(call, payload[0], payload[1], argv, kwv, starkw, st)
        if kind == "external":
            self.resolved += 1
            return FRESH
        self.unresolved[A.short(call.func, 50)] += 1
        return FRESH

    def builtin(self, call, nm, argv, kwv, st):
        if nm in ("dict", "OrderedDict", "defaultdict", "Counter"):
            o = set(FSET)
            for v in argv:
                o |= sset(v.o)
            for k_, v in kwv.items():
                o |= wset(v.o, k_)
            return Val(o, {"dict"})
        if nm in ("list", "sorted", "deque"):
            return Val(sset(argv[0].o) if argv else FSET, {"list"})
        if nm in ("set", "frozenset"):
            return Val(sset(argv[0].o) if argv else FSET, {"set"})
        if nm == "tuple":
            return Val(sset(argv[0].o) if argv else FSET, {"tuple"})
        if nm in BUILTIN_SHAL:
            o = set(FSET)
            for v in argv:
                o |= sset(v.o)
            return Val(o, {"gen", "pairs"} if nm in ("zip", "enumerate", "product", "zip_longest") else {"gen"})
        if nm == "copy.copy":
            return Val(sset(argv[0].o) if argv else FSET, argv[0].k if argv else ())
        if nm == "deepcopy":
            return FRESH
        if nm == "next":
            o = set(dset(argv[0].o)) if argv else set(FSET)
            if len(argv) > 1:
                o |= argv[1].o
            return Val(o)
        if nm == "getattr":
            o = set(FSET)
            for fld in (self.const_names(call.args[1]) if len(call.args) > 1 else ["*"]):
                o |= dset(argv[0].o, "_data" if fld == "data" else fld)
            if len(argv) > 2:
                o |= argv[2].o
            return Val(o)
        if nm == "setattr":
            if argv:
                self.write(call, "setattr", argv[0].o, call)
                if len(call.args) == 3:
                    v3 = call.args[2]
                    paired = isinstance(v3, ast.Call) and A.call_name(v3) == "getattr" and len(v3.args) >= 2 \
                        and A.text(v3.args[1]) == A.text(call.args[1]) and not isinstance(call.args[1], ast.Constant)
                    for fld in self.const_names(call.args[1]):
                        if paired and fld != "*":     # setattr(x, name, getattr(y, name)): same name on both sides
                            src = self.ev(v3.args[0], st)
                            self.absorb(call.args[0], Val(dset(src.o, fld)), st, field=fld)
                        else:
                            self.absorb(call.args[0], argv[2], st, field=fld)
            return FRESH
        if nm == "delattr":
            if argv:
                self.write(call, "delattr", argv[0].o, call)
            return FRESH
        if nm == "map":
            # map(f, xs): result of f on elements; f unknown -> FRESH, but evaluate lambda/func for effects
            return Val(FSET, {"gen"})
        if nm in ("max", "min") and argv:
            o = set(FSET)
            for v in argv:
                o |= dset(v.o) | v.o
            return Val(o)
        if nm == "sum" and len(argv) > 1:
            return Val(FSET | argv[1].o)
        return Val(FSET, {"imm"})

    def numpy_call(self, call, payload, argv, kwv):
        root, fn, ch = payload
        if fn in NP_INPLACE_ARG0 and argv:
            self.write(call, f"{'.'.join(ch)} writes its first argument", argv[0].o, call)
            return FRESH
        if len(ch) >= 3 and ch[-1] == "at" and argv:          # np.add.at(x, ...)
            self.write(call, f"{'.'.join(ch)} writes its first argument", argv[0].o, call)
            return FRESH
        if fn in NP_VIEW_FUNCS and argv:
            return Val(argv[0].o | FSET, {"arr"})
        if fn in ("array", "tensor") and argv:
            cp = A.kwarg(call, "copy")
            if cp is not None and isinstance(cp, ast.Constant) and cp.value is False:
                return Val(argv[0].o | FSET, {"arr"})
        return Val(FSET, {"arr"})

    def method_call(self, call, recv_expr, attr, argv, kwv, starkw, st):
        recv = self.ev(recv_expr, st)
        cands = self.typed_candidates(recv_expr, attr)
        container_kind = bool({"list", "dict", "set"} & recv.k)
        array_kind = "arr" in recv.k
        # object.__setattr__(x, 'f', v)
        if A.text(call.func) == "object.__setattr__" and argv:
            self.write(call, "object.__setattr__", argv[0].o, call)
            if len(call.args) == 3:
                fld = call.args[1].value if isinstance(call.args[1], ast.Constant) and \
                    isinstance(call.args[1].value, str) else "*"
                self.absorb(call.args[0], argv[2], st, field=fld)
            return FRESH
        if attr == "_replace":
            self.resolved += 1
            if "data" in kwv:
                return Val(wset(kwv["data"].o, "_data"))
            o = set(sset(recv.o))
            for k_, v in kwv.items():
                o |= wset(v.o, k_)
            return Val(o)
        # builtin container / array semantics when the receiver is known to be one, or no repo method has the name
        if attr in CONTAINER_MUTATORS and (container_kind or (not cands and not array_kind) or
                                          (attr in ("append", "extend", "setdefault", "popitem", "insert") and not cands)):
            self.resolved += 1
            self.write(call, f"container mutator .{attr}()", recv.o, call)
            if attr in ("append", "add", "insert", "setdefault", "appendleft") and argv:
                self.absorb(recv_expr, argv[-1], st)
            elif attr in ("extend", "update", "extendleft"):
                for v in argv:
                    self.absorb_flat(recv_expr, v, st)
                for k_, v in kwv.items():
                    self.absorb(recv_expr, v, st, field=k_)
            if attr in ("pop", "popitem", "setdefault", "popleft"):
                o = set(dset(recv.o, self.key_arg(call)))
                if attr == "setdefault" and len(argv) > 1:
                    o |= argv[1].o
                if attr == "pop" and len(argv) > 1:
                    o |= argv[1].o
                return Val(o | FSET)
            return FRESH
        if attr in ARRAY_MUTATORS and (array_kind or not cands):
            self.resolved += 1
            self.write(call, f"in-place array method .{attr}()", recv.o, call)
            return Val(recv.o, recv.k)
        if cands and not (container_kind and attr in CONTAINER_READERS_SHAL | CONTAINER_READERS_DEREF | {"copy"}) \
                and not (array_kind and attr in VIEW_METHODS | FRESH_METHODS):
            self.resolved += 1
            if self._record:
                self.call_sites.append((call, cands))
            out = Val(frozenset())
            for f in cands:
                out = out.join(self.apply_summary(call, f, recv_expr, argv, kwv, starkw, st, recv_val=recv))
            # a name shared with builtin containers keeps the builtin reading as well
            if attr in CONTAINER_READERS_DEREF and not array_kind:
                out = out.join(Val(dset(recv.o, self.key_arg(call))))
            if attr in CONTAINER_READERS_SHAL and attr != "copy":
                out = out.join(Val(sset(recv.o)))
            return out if out.o else FRESH
        if attr in CONTAINER_READERS_DEREF:
            self.resolved += 1
            o = set(dset(recv.o, self.key_arg(call))) | FSET
            if attr == "get" and len(argv) > 1:
                o |= argv[1].o
            return Val(o)
        if attr in CONTAINER_READERS_SHAL:
            self.resolved += 1
            if attr == "copy" and not container_kind:
                return Val(FSET, recv.k)           # ndarray.copy / deep copies of repository classes (rule M3)
            return Val(sset(recv.o), recv.k if attr == "copy" else ({"gen", "pairs"} if attr == "items" else {"gen"}))
        if attr in VIEW_METHODS and (array_kind or not cands):
            self.resolved += 1
            return Val(recv.o | FSET, {"arr"} if array_kind else set())
        if attr in FRESH_METHODS:
            self.resolved += 1
            return FRESH
        self.unresolved["." + attr] += 1
        return FRESH

    def const_names(self, node):
        """Possible string values of an attribute-name expression: a literal, or a loop variable that
        iterates over a literal list/tuple of strings; otherwise ['*']."""
        if isinstance(node, ast.Constant) and isinstance(node.value, str):
            return [node.value]
        if isinstance(node, ast.Name):
            if not hasattr(self, "_bindings"):
                self._bindings = A.local_bindings(self.node)
            bs = self._bindings.get(node.id, [])
            if len(bs) == 1 and bs[0][2] == "for":
                it = bs[0][1]
                if isinstance(it, ast.Name) and it.id not in self._bindings:
                    # a module-level tuple / list of names assigned exactly once
                    tops = [st_.value for st_ in self.mod.tree.body if isinstance(st_, ast.Assign) and len(st_.targets) == 1
                            and isinstance(st_.targets[0], ast.Name) and st_.targets[0].id == it.id]
                    it = tops[0] if len(tops) == 1 else it
                if isinstance(it, (ast.List, ast.Tuple)) and it.elts and all(isinstance(e, ast.Constant) and isinstance(e.value, str) for e in it.elts):
                    return [e.value for e in it.elts]
        return ["*"]

    @staticmethod
    def key_arg(call):
        if call.args and isinstance(call.args[0], ast.Constant) and isinstance(call.args[0].value, str):
            return call.args[0].value
        return "*"

    def absorb_flat(self, container_expr, v: Val, st):
        """container.extend(v) / update(v): elements of v become elements of container."""
        self.absorb(container_expr, Val(dset(v.o)), st)

    # --------------------------------------------------------- summaries
    def bind_args(self, f: FuncInfo, recv_val, argv, call, kwv, starkw):
        """Map callee parameter index -> Val of the argument."""
        params = f.params
        a = f.node.args
        pos = [x.arg for x in a.posonlyargs + a.args]
        out = {}
        start = 0
        if recv_val is not None and pos:
            out[0] = recv_val
            start = 1
        i = start
        extra_pos = []
        for arg_node, v in zip(call.args, argv):
            if isinstance(arg_node, ast.Starred):
                # spread over the remaining positional params
                for j in range(i, len(pos)):
                    out[j] = out.get(j, Val(frozenset())).join(Val(dset(v.o)))
                extra_pos.append(Val(dset(v.o)))
                continue
            if i < len(pos):
                out[i] = v
                i += 1
            else:
                extra_pos.append(v)
        pidx = {p: n for n, p in enumerate(params)}
        unmatched = []
        for k, v in kwv.items():
            if k in pidx and k != (a.kwarg.arg if a.kwarg else None) and k != (a.vararg.arg if a.vararg else None):
                out[pidx[k]] = v
            else:
                unmatched.append((k, v))
        if a.vararg is not None:
            o = set(FSET)
            for v in extra_pos:
                o |= wset(v.o)
            out[pidx[a.vararg.arg]] = Val(o, {"tuple"})
        if a.kwarg is not None:
            o = set(FSET)
            for k, v in unmatched:
                o |= wset(v.o, k)
            for v in starkw:
                o |= sset(v.o)
            out[pidx[a.kwarg.arg]] = Val(o, {"dict"})
        if starkw:
            for v in starkw:
                for k, j in pidx.items():
                    if j not in out and k not in (a.kwarg.arg if a.kwarg else None, a.vararg.arg if a.vararg else None):
                        out[j] = Val(dset(v.o, k))
        return out

    def apply_summary(self, call, f: FuncInfo, recv, argv, kwv, starkw, st, recv_val=None):
        s = self.eng.summary(f)
        self.deps.add(id(f.node))
        if recv == "CLS":
            recv_val = FRESH
        elif recv is not None and recv_val is None:
            recv_val = self.ev(recv, st)
        if recv is None and (f.cls is not None) and not is_staticmethod(f) and False:
            pass
        if is_staticmethod(f):
            recv_val = None
        if is_property(f):
            recv_val = recv_val
        binding = self.bind_args(f, recv_val, argv, call, kwv, starkw)
        # mutations
        for pi, paths in s.mut.items():
            if pi not in binding:
                continue
            for m in paths:
                targets = dpath(binding[pi].o, m)
                if any(is_shared_param(o) or is_shared_global(o) or is_shared_cached(o) for o in targets):
                    site = s.mut_sites.get(pi, [("?", 0, "?")])
                    self.write(call, f"call of {f.short}() which writes its parameter `{f.params[pi]}`"
                               + (f" at .{'.'.join(m)}" if m else ""), targets, call, via=(f, pi, m, site[:3]))
        for g in s.gwrites:
            self.write(call, f"call of {f.short}() which writes module-level {g}", {(("G", g), (), ())},
                       call, via=(f, None, (), []))
        # return value
        out = set(FSET)
        for o in s.ret:
            out |= self.instantiate(o, binding)
        if self.eng.track_cached and any("lru_cache" in d for d in f.decorators):
            # the very object stored in the cache is handed out on every hit
            out.add((("C", f.qualname), (), ()))
        return Val(out)

    @staticmethod
    def instantiate(o, binding):
        if o[0] == "F":
            return {o}
        root, tags, path = o
        if root[0] != "P":
            return {o}
        pi = root[1]
        if pi not in binding:
            return set()
        res = set()
        for a in binding[pi].o:
            x = a
            for f in path:
                x = deref(x, f)
                if x is None:
                    break
            if x is None or x[0] == "F":
                continue
            for t in reversed(tags):
                x = shal(x) if t == "=" else wrap(x, t)
            if x[0] != "F":
                res.add(x)
        return res

    def construct(self, call, ci: ClassInfo, argv, kwv, starkw, st):
        init = self.prog.lookup_method(ci, "__init__") or self.prog.lookup_method(ci, "__post_init__")
        out = set(FSET)
        if init is None or init.name == "__post_init__":
            # dataclass / NamedTuple / plain: the new object holds its arguments
            for v in argv + list(kwv.values()):
                out |= wset(v.o)
            for v in starkw:
                out |= sset(v.o)
            return Val(out)
        s = self.eng.summary(init)
        self.deps.add(id(init.node))
        binding = self.bind_args(init, FRESH, argv, call, kwv, starkw)
        for pi, paths in s.mut.items():
            if pi == 0 or pi not in binding:
                continue
            for m in paths:
                targets = dpath(binding[pi].o, m)
                if any(is_shared_param(o) or is_shared_global(o) for o in targets):
                    self.write(call, f"constructor {ci.name}() writes its parameter `{init.params[pi]}`",
                               targets, call, via=(init, pi, m, s.mut_sites.get(pi, [])[:3]))
        for o in s.self_contains:
            out |= self.instantiate(o, binding)
        if self._record:
            self.call_sites.append((call, [init]))
        return Val(out)
