"""E3 `legspace` — index-space typing of leg indices.

A yastn tensor has three leg index spaces:
   META  positions in `mfs`      (what the user passes: axes=...)
   LNAT  positions in `trans`    (logical native legs: meta legs unpacked)
   NAT   positions in `struct.s`, `hfs`, per-block `t`/`D`  (native storage order)
with   LNAT = _unpack_axes(X.mfs, META),  NAT = X.trans[LNAT].
On a freshly created tensor all three coincide, which is what nearly every test uses.

The engine is a flow-sensitive forward abstract interpretation per function (CFG of sa/core/cfg.py).
Abstract value of an expression: Idx(space, tensor) for an index or a sequence of indices, Tup([...]) for a
tuple whose components have different types, or None (unknown / untyped literal).  Only *definite* types that
contradict the requirement of a sink raise a finding (G-2).
"""
from __future__ import annotations

import ast
from dataclasses import dataclass

from . import astutil as A
from .cfg import CFG

META, LNAT, NAT, BOTH = "META", "LNAT", "NAT", "BOTH"
USER = "USER"     # join of different spaces: on some path the value is a logical (meta / logical-native) index that was
#                   not mapped through `trans`; compatible with META/LNAT sinks (unknown which), definitely not NAT


@dataclass(frozen=True)
class Idx:
    space: str
    ten: str          # tensor variable the index refers to ('*' = any)

    def __repr__(self):
        return f"{self.space}({self.ten})"


@dataclass(frozen=True)
class Tup:
    elts: tuple

    def __repr__(self):
        return "Tup" + repr(self.elts)


@dataclass(frozen=True)
class Alias:
    """local alias of a per-leg field of tensor `ten`: kind in trans|hfs|s|t3|D2|blockt|blockD|mfs"""
    kind: str
    ten: str


FIELD_SPACE = {"mfs": META, "trans": LNAT, "hfs": NAT, "s": NAT, "t3": NAT, "D2": NAT, "blockt": NAT, "blockD": NAT}


def join(a, b):
    if a == b:
        return a
    if isinstance(a, Idx) and isinstance(b, Idx) and a.ten == b.ten:
        if {a.space, b.space} <= {BOTH, NAT} or {a.space, b.space} <= {BOTH, LNAT}:
            return a if b.space == BOTH else b
        return Idx(USER, a.ten)
    return None


class Finding:
    def __init__(self, node, rule, msg, facts):
        self.node, self.rule, self.msg, self.facts = node, rule, msg, facts


class LegSpace:
    def __init__(self, fi, seeds=None, nat_params=None, tensors=None):
        """seeds: {param: type}; nat_params: {callee name: {arg position or keyword: (space, tensor arg position)}}"""
        self.fi = fi
        self.fn = fi.node
        self.seeds = seeds or {}
        self.callee_table = nat_params or {}
        self.tensors = set(tensors or [])       # names known to be tensors
        self.findings: list[Finding] = []
        self.sinks = []            # (node, required, got, ok)
        self.ident_trans = {}      # per state: handled in state under key '$ident'
        self._record = False

    # ------------------------------------------------------------------ run
    def run(self):
        cfg = CFG(self.fn)
        self.cfg = cfg
        init = dict(self.seeds)
        init["$ident"] = frozenset()
        init["$trivmfs"] = frozenset()
        instate = {cfg.entry.id: init}
        work = [cfg.entry.id]
        it = 0
        while work:
            it += 1
            if it > 5000:
                break
            n = work.pop()
            st = instate.get(n)
            if st is None:
                continue
            out = self.transfer(cfg.nodes[n], dict(st))
            for s in cfg.succ[n]:
                old = instate.get(s)
                new = self.join_state(old, out)
                if new != old:
                    instate[s] = new
                    work.append(s)
        self._record = True
        self.findings = []
        self.sinks = []
        for n in sorted(instate):
            self.transfer(cfg.nodes[n], dict(instate[n]))
        self._record = False
        self.instate = instate
        return self

    @staticmethod
    def join_state(a, b):
        if a is None:
            return dict(b)
        out = {}
        for k in set(a) | set(b):
            if k in ("$ident", "$trivmfs"):
                out[k] = a.get(k, frozenset()) & b.get(k, frozenset())
            elif k in a and k in b:
                j = join(a[k], b[k])
                if j is not None:
                    out[k] = j
            # a name typed on one path only: unknown after the join
        return out

    # ------------------------------------------------------------- transfer
    def transfer(self, node, st):
        x = node.ast
        if x is None:
            return st
        k = node.kind
        if k == "test":
            self.ty(x, st)
        elif k == "loop":
            self.bind_iter(x.target, x.iter, st)
        elif k == "with":
            pass
        elif k in ("except", "def"):
            pass
        else:
            self.stmt(x, st)
        return st

    def stmt(self, x, st):
        if isinstance(x, ast.Assign):
            v = self.ty(x.value, st)
            for t in x.targets:
                self.assign(t, v, st, x.value)
        elif isinstance(x, ast.AugAssign):
            v = self.ty(x.value, st)
            if isinstance(x.target, ast.Name):
                cur = st.get(x.target.id)
                j = join(cur, v) if cur is not None and v is not None else (cur if v is None else (v if cur is None else None))
                if j is not None:
                    st[x.target.id] = j
                else:
                    st.pop(x.target.id, None)
            else:
                self.ty(x.target, st)
        elif isinstance(x, ast.AnnAssign) and x.value is not None:
            self.assign(x.target, self.ty(x.value, st), st, x.value)
        elif isinstance(x, (ast.Return, ast.Expr)):
            if x.value is not None:
                self.ty(x.value, st)
        elif isinstance(x, (ast.Raise, ast.Assert)):
            for c in ast.iter_child_nodes(x):
                if isinstance(c, ast.expr):
                    self.ty(c, st)

    def assign(self, t, v, st, value_node=None):
        if isinstance(t, ast.Name):
            # tensor rebinding that changes the meaning of native indices
            if value_node is not None and isinstance(value_node, ast.Call) and isinstance(value_node.func, ast.Attribute):
                m = value_node.func.attr
                recv = A.text(value_node.func.value)
                if m == "consume_transpose":
                    # indices of the receiver computed before are void; LNAT == NAT from here on
                    for k_, vv in list(st.items()):
                        if isinstance(vv, Idx) and vv.ten in (recv, t.id) and vv.space == NAT:
                            st.pop(k_)
                    st["$ident"] = st.get("$ident", frozenset()) | {t.id}
                elif m == "fuse_meta_to_hard" or (isinstance(value_node.func, ast.Name)):
                    pass
            if value_node is not None and isinstance(value_node, ast.Call) and A.call_name(value_node) == "fuse_meta_to_hard":
                st["$trivmfs"] = st.get("$trivmfs", frozenset()) | {t.id}
            al = self.alias_of(value_node, st) if value_node is not None else None
            if al is not None:
                st[t.id] = al
            elif v is not None:
                st[t.id] = v
            else:
                st.pop(t.id, None)
        elif isinstance(t, (ast.Tuple, ast.List)):
            if isinstance(v, Tup) and len(v.elts) == len(t.elts):
                for e, vv in zip(t.elts, v.elts):
                    self.assign(e, vv, st)
            elif isinstance(value_node, (ast.Tuple, ast.List)) and len(value_node.elts) == len(t.elts):
                for e, vn in zip(t.elts, value_node.elts):
                    self.assign(e, self.ty(vn, st), st, vn)
            elif isinstance(v, Idx):
                for e in t.elts:
                    self.assign(e, v, st)
            else:
                for e in t.elts:
                    self.assign(e, None, st)
        elif isinstance(t, ast.Subscript):
            self.ty(t, st)           # sinks on the target
        elif isinstance(t, ast.Starred):
            self.assign(t.value, v, st)

    # ------------------------------------------------------------ aliases
    def alias_of(self, node, st):
        """`list(X.trans)`, `X.hfs`, `list(X.struct.s)`, np.array(X.struct.t ...).reshape(..) etc."""
        if node is None:
            return None
        n = node
        if isinstance(n, ast.Call) and A.call_name(n) in ("list", "tuple") and len(n.args) == 1:
            n = n.args[0]
        tx = A.text(n)
        for fld, kind in ((".trans", "trans"), (".hfs", "hfs"), (".struct.s", "s"), (".mfs", "mfs")):
            if tx.endswith(fld) and isinstance(n, ast.Attribute):
                base = tx[: -len(fld)]
                if base.isidentifier():
                    return Alias(kind, base)
        # np.array(X.struct.t, ...).reshape(lt, ndim_n, nsym)  /  np.array(X.struct.D ...).reshape(lt, ndim_n)
        if isinstance(node, ast.Call) and A.callee_attr(node) == "reshape" and isinstance(node.func, ast.Attribute):
            inner = node.func.value
            if isinstance(inner, ast.Call) and A.call_name(inner) in ("np.array", "numpy.array") and inner.args:
                src = A.text(inner.args[0])
                nargs = len(node.args[0].elts) if len(node.args) == 1 and isinstance(node.args[0], ast.Tuple) else len(node.args)
                if src.endswith(".struct.t") and nargs == 3:
                    return Alias("t3", src[: -len(".struct.t")])
                if src.endswith(".struct.D") and nargs == 2:
                    return Alias("D2", src[: -len(".struct.D")])
                if src == "struct.t" and nargs == 3:
                    return Alias("t3", "struct")
                if src == "struct.D" and nargs == 2:
                    return Alias("D2", "struct")
        if isinstance(node, ast.Name) and isinstance(st.get(node.id), Alias):
            return st[node.id]
        if isinstance(node, ast.Subscript) and isinstance(node.slice, ast.Slice) and isinstance(node.value, ast.Name) \
                and isinstance(st.get(node.value.id), Alias):
            return None
        return None

    # ---------------------------------------------------------------- sinks
    def compatible(self, got: Idx, need: str, ten: str, st):
        if got is None or not isinstance(got, Idx):
            return None
        if got.space == need:
            return True
        if got.space == USER:
            return False if need == NAT else None
        if got.space == BOTH and need in (LNAT, NAT):
            return True
        ident = st.get("$ident", frozenset())
        if {got.space, need} == {LNAT, NAT} and (got.ten in ident or ten in ident):
            return True
        triv = st.get("$trivmfs", frozenset())
        if {got.space, need} <= {META, LNAT, BOTH} and (got.ten in triv or ten in triv):
            return True
        return False

    def sink(self, idx_node, need, ten, st, what):
        got = self.ty(idx_node, st) if not isinstance(idx_node, (Idx, Tup, type(None))) else idx_node
        if isinstance(got, Tup):
            for e in got.elts:
                self.sink(e, need, ten, st, what) if isinstance(e, (Idx, Tup)) else None
            return
        ok = self.compatible(got, need, ten, st)
        if self._record:
            self.sinks.append((idx_node, need, got, ok, what))
            if ok is False:
                self.findings.append(Finding(idx_node if isinstance(idx_node, ast.AST) else None, "L1",
                                             f"{what} needs a {need} index of `{ten}` but `{A.short(idx_node, 40) if isinstance(idx_node, ast.AST) else got}` "
                                             f"is a {got.space} index of `{got.ten}`",
                                             {"required": need, "found": repr(got)}))

    def sink_slice(self, sl, need, ten, st, what):
        if isinstance(sl, ast.Slice):
            for b in (sl.lower, sl.upper):
                if b is not None:
                    self.sink(b, need, ten, st, what)
        elif isinstance(sl, ast.Tuple):
            pass
        else:
            self.sink(sl, need, ten, st, what)

    # ----------------------------------------------------------- expressions
    def ty(self, e, st):
        if e is None:
            return None
        m = getattr(self, "ty_" + type(e).__name__, None)
        if m is None:
            for c in ast.iter_child_nodes(e):
                if isinstance(c, ast.expr):
                    self.ty(c, st)
            return None
        return m(e, st)

    def ty_Name(self, e, st):
        v = st.get(e.id)
        return v if isinstance(v, (Idx, Tup)) else None

    def ty_Constant(self, e, st):
        return None

    def ty_Tuple(self, e, st):
        ts = [self.ty(x, st) for x in e.elts]
        if not ts:
            return None
        definite = [t for t in ts if t is not None]
        if not definite:
            return None
        if all(t == definite[0] for t in definite) and isinstance(definite[0], Idx) and len(definite) == len(ts):
            return definite[0]
        if all(t == definite[0] for t in definite) and isinstance(definite[0], Idx) and all(
                isinstance(x, ast.Constant) for x, t in zip(e.elts, ts) if t is None):
            return definite[0]
        return Tup(tuple(ts))

    ty_List = ty_Tuple

    def ty_Starred(self, e, st):
        return self.ty(e.value, st)

    def ty_IfExp(self, e, st):
        self.ty(e.test, st)
        a, b = self.ty(e.body, st), self.ty(e.orelse, st)
        # `trans[u] if u < len(trans) else u`: in the else branch u is the end position (number of native legs),
        # which is the same position in every index space
        t = e.test
        if isinstance(t, ast.Compare) and len(t.ops) == 1 and isinstance(t.ops[0], ast.Lt) and A.text(t.left) == A.text(e.orelse) \
                and isinstance(t.comparators[0], ast.Call) and A.call_name(t.comparators[0]) == "len":
            bf = self.base_field(t.comparators[0].args[0], st) if t.comparators[0].args else None
            if bf is not None and bf[0] in ("trans", "s", "hfs") and isinstance(a, Idx):
                return a
        if a is None:
            return b if isinstance(e.body, ast.Constant) else None
        if b is None:
            return a if isinstance(e.orelse, ast.Constant) else (a if isinstance(e.orelse, ast.Name) and False else None) \
                if not isinstance(e.orelse, ast.Name) else None
        return join(a, b)

    def count_space(self, e):
        """`T.ndim` / `len(T.mfs)` count meta legs, `T.ndim_n` / `len(T.trans|hfs|struct.s)` count native legs -> (space, T) or None"""
        tx = A.text(e)
        for suf, sp in ((".ndim_n", BOTH), (".ndim", META)):
            if tx.endswith(suf) and tx[: -len(suf)].isidentifier():
                return sp, tx[: -len(suf)]
        if tx.startswith("len(") and tx.endswith(".mfs)") and tx[4:-5].isidentifier():
            return META, tx[4:-5]
        for suf in (".trans)", ".hfs)", ".struct.s)"):
            if tx.startswith("len(") and tx.endswith(suf) and tx[4:-len(suf)].isidentifier():
                return BOTH, tx[4:-len(suf)]
        return None

    def ty_BinOp(self, e, st):
        l, r = self.ty(e.left, st), self.ty(e.right, st)
        if isinstance(e.op, (ast.Mod, ast.Add)) and isinstance(l, Idx) and l.ten != "*":
            # normalisation of a possibly negative index: the count added / taken modulo is the number of legs of the index's own space
            cs = self.count_space(e.right)
            if cs is not None and cs[1] == l.ten:
                meta_idx = l.space in (META, USER)
                nat_idx = l.space in (LNAT, NAT, BOTH)
                ok = None
                if meta_idx:
                    ok = cs[0] == META
                elif nat_idx:
                    ok = cs[0] == BOTH
                if self._record and ok is not None:
                    self.sinks.append((e, META if cs[0] == META else BOTH, l, ok, f"normalisation `{A.short(e, 40)}`"))
                    if ok is False:
                        self.findings.append(Finding(e, "L1", f"`{A.short(e, 50)}` normalises a {l.space} index of `{l.ten}` with the number of "
                                                     f"{'native' if cs[0] == BOTH else 'meta'} legs (`{A.text(e.right)}`): with meta-fused legs the two counts differ and "
                                                     f"a negative position lands on another leg",
                                                     {"index": repr(l), "count": A.text(e.right)}))
        if isinstance(e.op, (ast.Mod, ast.Add, ast.Sub, ast.Mult, ast.FloorDiv)):
            if isinstance(l, Idx) and (r is None or r == l):
                return l
            if isinstance(r, Idx) and l is None:
                return r
            if isinstance(l, Tup) or isinstance(r, Tup):
                return None
        return None

    def ty_UnaryOp(self, e, st):
        return self.ty(e.operand, st)

    def ty_BoolOp(self, e, st):
        for v in e.values:
            self.ty(v, st)
        return None

    def ty_Compare(self, e, st):
        l = self.ty(e.left, st)
        for op, c in zip(e.ops, e.comparators):
            r = self.ty(c, st)
            if isinstance(op, (ast.In, ast.NotIn, ast.Eq, ast.NotEq)) and isinstance(l, Idx) and isinstance(r, Idx) \
                    and l.ten == r.ten and l.ten != "*":
                ok = self.compatible(l, r.space, r.ten, st) or self.compatible(r, l.space, l.ten, st)
                if self._record:
                    self.sinks.append((e, r.space, l, ok, "comparison"))
                    if ok is False:
                        self.findings.append(Finding(e, "L1", f"`{A.short(e, 60)}` compares a {l.space} index with {r.space} indices of `{l.ten}`",
                                                     {"left": repr(l), "right": repr(r)}))
        return None

    def ty_Attribute(self, e, st):
        tx = A.text(e)
        if isinstance(e.value, ast.Name):
            if e.attr == "trans":
                return Idx(NAT, e.value.id)      # as a sequence: its elements are native positions
        self.ty(e.value, st)
        return None

    def base_field(self, node, st):
        """-> (kind, tensor) when `node` is a per-leg field expression or an alias of one"""
        if isinstance(node, ast.Name):
            v = st.get(node.id)
            if isinstance(v, Alias):
                return v.kind, v.ten
            return None
        tx = A.text(node)
        for fld, kind in ((".struct.s", "s"), (".hfs", "hfs"), (".trans", "trans"), (".mfs", "mfs")):
            if tx.endswith(fld):
                base = tx[: -len(fld)]
                if base.isidentifier():
                    return kind, base
        if tx == "struct.s":
            return "s", "struct"
        return None

    def ty_Subscript(self, e, st):
        bf = self.base_field(e.value, st)
        if bf is not None:
            kind, ten = bf
            need = FIELD_SPACE[kind]
            what = f"`{A.short(e, 50)}`"
            if kind in ("t3", "D2"):
                sl = e.slice
                if isinstance(sl, ast.Tuple) and len(sl.elts) >= 2:
                    i = sl.elts[1]
                    if isinstance(i, ast.Tuple) and len(i.elts) == 1:
                        i = i.elts[0]
                    if not isinstance(i, ast.Slice):
                        self.sink(i, NAT, ten, st, what)
                return None
            if kind in ("blockD",):
                self.sink_slice(e.slice, NAT, ten, st, what)
                return None
            if kind == "blockt":
                self.sink_slice(e.slice, NAT, ten, st, what)
                return None
            self.sink_slice(e.slice, need, ten, st, what)
            if kind == "trans":
                if isinstance(e.slice, ast.Slice):
                    return Idx(NAT, ten)
                return Idx(NAT, ten)
            if kind == "mfs":
                return None
            return None
        base = self.ty(e.value, st)
        self.ty(e.slice, st)
        if isinstance(base, Tup):
            if isinstance(e.slice, ast.Constant) and isinstance(e.slice.value, int) and -len(base.elts) <= e.slice.value < len(base.elts):
                return base.elts[e.slice.value]
            return None
        if isinstance(base, Idx):
            return base
        return None

    def ty_Slice(self, e, st):
        for c in (e.lower, e.upper, e.step):
            if c is not None:
                self.ty(c, st)
        return None

    def elem_bind(self, target, iter_node, st):
        """bind comprehension / for targets; returns nothing"""
        it = iter_node
        # zip(A, B, ...)
        if isinstance(it, ast.Call) and A.call_name(it) == "zip":
            args = it.args
            if len(args) == 1 and isinstance(args[0], ast.Starred):
                t = self.ty(args[0].value, st)
                if isinstance(t, Tup) and isinstance(target, (ast.Tuple, ast.List)) and len(t.elts) == len(target.elts):
                    for e, tt in zip(target.elts, t.elts):
                        self.assign(e, tt, st)
                    return
                self.assign(target, None, st)
                return
            if isinstance(target, (ast.Tuple, ast.List)) and len(target.elts) == len(args):
                for e, a in zip(target.elts, args):
                    self.elem_bind(e, a, st)
                return
            self.assign(target, None, st)
            return
        if isinstance(it, ast.Call) and A.call_name(it) == "enumerate" and it.args:
            if isinstance(target, (ast.Tuple, ast.List)) and len(target.elts) == 2:
                bf = self.base_field(it.args[0], st)
                inner_t = self.ty(it.args[0], st)
                if bf is not None and bf[0] == "trans":
                    self.assign(target.elts[0], Idx(LNAT, bf[1]), st)
                    self.assign(target.elts[1], Idx(NAT, bf[1]), st)
                elif bf is not None and bf[0] in ("hfs", "s"):
                    self.assign(target.elts[0], Idx(NAT, bf[1]), st)
                    self.assign(target.elts[1], None, st)
                elif bf is not None and bf[0] == "mfs":
                    self.assign(target.elts[0], Idx(META, bf[1]), st)
                    self.assign(target.elts[1], None, st)
                else:
                    self.assign(target.elts[0], None, st)
                    self.elem_bind(target.elts[1], it.args[0], st)
                return
        # iteration over per-block tuples of struct.D / struct.t
        tx = A.text(it)
        if tx.endswith(".struct.D") and isinstance(target, ast.Name):
            st[target.id] = Alias("blockD", tx[: -len(".struct.D")])
            return
        if tx.endswith(".struct.t") and isinstance(target, ast.Name):
            st[target.id] = Alias("blockt", tx[: -len(".struct.t")])
            return
        bf = self.base_field(it, st)
        if bf is not None and bf[0] == "trans":
            self.assign(target, Idx(NAT, bf[1]), st)
            return
        t = self.ty(it, st)
        if isinstance(t, Tup):
            # iterating a tuple of groups with different types: unknown
            self.assign(target, None, st)
            return
        self.assign(target, t, st)

    def bind_iter(self, target, iter_node, st):
        self.elem_bind(target, iter_node, st)

    def _comp(self, e, st, elt):
        st2 = dict(st)
        for g in e.generators:
            self.elem_bind(g.target, g.iter, st2)
            for c in g.ifs:
                self.ty(c, st2)
        return self.ty(elt, st2)

    def ty_GeneratorExp(self, e, st):
        return self._comp(e, st, e.elt)

    ty_ListComp = ty_GeneratorExp
    ty_SetComp = ty_GeneratorExp

    def ty_DictComp(self, e, st):
        st2 = dict(st)
        for g in e.generators:
            self.elem_bind(g.target, g.iter, st2)
            for c in g.ifs:
                self.ty(c, st2)
        self.ty(e.key, st2)
        self.ty(e.value, st2)
        return None

    def ty_Lambda(self, e, st):
        return None

    def ty_Call(self, e, st):
        nm = A.call_name(e) or ""
        attr = A.callee_attr(e)
        args = e.args
        # ---- constructors of index values
        if nm == "range" and len(args) >= 1:
            a0 = args[-1] if len(args) <= 2 else args[1]
            if isinstance(a0, ast.IfExp):
                import copy
                ts = []
                for br in (a0.body, a0.orelse):
                    c2 = copy.copy(e)
                    c2.args = [br]
                    ts.append(self.ty_Call(c2, st))
                return join(ts[0], ts[1]) if ts[0] is not None and ts[1] is not None else None
            tx = A.text(a0)
            for suf, sp in ((".ndim_n", BOTH), (".ndim", META)):
                if tx.endswith(suf) and tx[: -len(suf)].isidentifier():
                    return Idx(sp, tx[: -len(suf)])
            if tx.startswith("len(") and tx.endswith(".mfs)"):
                return Idx(META, tx[4:-5])
            if tx.startswith("len(") and (tx.endswith(".struct.s)") or tx.endswith(".hfs)") or tx.endswith(".trans)")):
                base = tx[4:].rsplit(".", 2 if tx.endswith(".struct.s)") else 1)[0]
                return Idx(BOTH, base)
            t = self.ty(a0, st)
            if isinstance(t, Idx):
                return t            # range(axis): positions before `axis` in the same space
            return None
        if attr == "index" and isinstance(e.func, ast.Attribute) and len(args) == 1:
            # X.trans.index(p): the *inverse* permutation -- takes a native position, returns the logical one
            bf = self.base_field(e.func.value, st)
            if bf is not None and bf[0] == "trans":
                self.sink(args[0], NAT, bf[1], st, f"`{A.short(e, 50)}` (inverse of the pending permutation: position of a native leg)")
                return Idx(LNAT, bf[1])
        if nm == "_unpack_axes" and args:
            m = A.text(args[0])
            ten = m[: -len(".mfs")] if m.endswith(".mfs") else None
            outs = []
            for a in args[1:]:
                if ten:
                    self.sink(a, META, ten, st, f"`_unpack_axes({m}, ...)`")
                outs.append(Idx(LNAT, ten) if ten else None)
            return Tup(tuple(outs))
        if nm == "_clear_axes":
            outs = []
            for a in args:
                if isinstance(a, ast.Starred):
                    t = self.ty(a.value, st)
                    if isinstance(t, Tup):
                        outs.extend(t.elts)
                    elif isinstance(t, Idx):
                        return t          # destructuring gives every group this type
                    else:
                        return None
                else:
                    outs.append(self.ty(a, st))
            return Tup(tuple(outs))
        if nm == "_unpack_trans_test_axes_pair" and len(args) >= 2:
            ta, tb = A.text(args[0]), A.text(args[1])
            ax = A.kwarg(e, "axes")
            if ax is not None:
                t = self.ty(ax, st)
                if isinstance(ax, (ast.Tuple, ast.List)) and len(ax.elts) == 2:
                    self.sink(ax.elts[0], META, ta, st, "axes[0] of the fusion test")
                    self.sink(ax.elts[1], META, tb, st, "axes[1] of the fusion test")
            return Tup((None, Tup((Idx(NAT, ta), Idx(NAT, tb)))))
        if nm in ("tuple", "list", "sorted", "set", "reversed", "_flatten", "frozenset") and len(args) == 1:
            t = self.ty(args[0], st)
            if nm == "_flatten" and isinstance(t, Tup):
                ds = [x for x in t.elts if x is not None]
                if ds and all(x == ds[0] for x in ds) and len(ds) == len(t.elts):
                    return ds[0]
                return None
            return t if isinstance(t, Idx) else (t if nm in ("tuple", "list") else None)
        if nm == "sum" and len(args) == 1 and isinstance(args[0], (ast.GeneratorExp, ast.ListComp)):
            g = args[0]
            # sum(X.mfs[ii][0] for ii in range(<META>)) -> LNAT offset
            et = A.text(g.elt)
            if et.endswith("[0]") and ".mfs[" in et and len(g.generators) == 1:
                ten = et.split(".mfs[")[0]
                self._comp(g, st, g.elt)
                return Idx(LNAT, ten) if ten.isidentifier() else None
            self._comp(g, st, g.elt)
            return None
        if nm in ("len", "max", "min", "abs", "int", "any", "all", "isinstance", "hasattr"):
            for a in args:
                self.ty(a, st)
            return None
        # ---- table of callees with typed parameters
        short = nm.split(".")[-1] if nm else attr
        spec = self.callee_table.get(short)
        # evaluate all args for nested sinks
        tys = [self.ty(a, st) for a in args]
        for kw in e.keywords:
            self.ty(kw.value, st)
        if spec:
            recv_off = 1 if (isinstance(e.func, ast.Attribute) and spec.get("__method__")) else 0
            for key, val_ in spec.items():
                if key in ("__method__", "__returns__"):
                    continue
                space, tpos = val_
                node = None
                if isinstance(key, int):
                    k2 = key - recv_off
                    if 0 <= k2 < len(args):
                        node = args[k2]
                else:
                    node = A.kwarg(e, key)
                if node is None:
                    continue
                if isinstance(tpos, int):
                    tp2 = tpos - recv_off
                    ten = A.text(e.func.value) if (recv_off and tpos == 0 and isinstance(e.func, ast.Attribute)) else \
                        (A.text(args[tp2]) if 0 <= tp2 < len(args) else "*")
                else:
                    ten = tpos
                self.sink(node, space, ten if ten.isidentifier() else "*", st, f"argument `{key}` of {short}()")
            ret = spec.get("__returns__")
            if ret is not None:
                return ret(e, self, st) if callable(ret) else ret
        return None


