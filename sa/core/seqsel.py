"""E3d `seqsel` — parallel sequences are restricted by the same selection.

The blocks of a tensor are described by *parallel* sequences: `struct.t`, `struct.D` (charges and shapes, one entry per block) and
`slices` (position of the block in the 1-D data).  Sectors of a leg are described by `leg.t`, `leg.D`.  Code that works on a subset
of the blocks narrows these sequences (`[X[i] for i in inds]`, `X[a:b]`, a filtering comprehension); all members of a family have to
be narrowed by the *same* selection before they are paired again, or entry k of one describes another block than entry k of the
other — charges and shapes of the k-th selected block combined with the memory of the k-th block overall.

Every sequence-valued expression gets a set of facts (family, selection):
    X.t, X.D, X.Dp, X.sl (X a name or a.struct)     family of X              selection 'full'
    slices / slices_a / a.slices                     same family as struct / struct_a / a.struct
    [S[i] for i in I], tuple(S[i] ... for i in I)    as S with selection 'sel:<I>'    (S[i].attr, f(S[i]) alike)
    [f(e) for e in S]                                as S          (with an `if`: selection 'filter:<cond>')
    S[a:b]                                           selection 'slice:<a:b>'
    tuple(S), list(S), np.array(S), enumerate(S)     as S
    `A if c else B`                                  union
    a local name                                     union over its definitions that reach the use (CFG)
The rule: the arguments of one `zip(...)` that belong to the same family must carry the same *set* of selections (definitions made
in the two branches of one `if` give equal sets on both sides; a member that was not narrowed where its partners were gives a
different set).
"""
from __future__ import annotations

import ast
import re

from . import astutil as A
from .cfg import CFG

BLOCK_ATTRS = {"t", "D", "Dp", "sl"}
PRESERVING = {"tuple", "list", "enumerate", "iter", "np.array", "np.asarray", "array"}


def family_of_base(e):
    """family key of the object whose per-block / per-sector sequences are read, or None"""
    if isinstance(e, ast.Name):
        m = re.fullmatch(r"(struct|slices)(.*)", e.id)
        if m:
            return "blocks" + m.group(2)
        return "obj:" + e.id
    if isinstance(e, ast.Attribute) and e.attr in ("struct", "slices"):
        return "blocks of " + A.text(e.value)
    return None


class SelOrder:
    def __init__(self, fn):
        self.fn = fn
        self.b = A.local_bindings(fn)
        self.parent = A.enclosing_map(fn)
        self._cfg = None
        self.findings = []

    @property
    def cfg(self):
        if self._cfg is None:
            self._cfg = CFG(self.fn)
        return self._cfg

    def defs(self, name, at):
        """definitions of `name` that reach `at`; a parameter's initial value is the pseudo-definition (None, None, 'param')"""
        all_ = list(self.b.get(name, []))
        a = self.fn.args
        is_param = name in {x.arg for x in a.posonlyargs + a.args + a.kwonlyargs}
        if at is None:
            return all_ + ([(None, None, "param")] if is_param else [])
        tgt = at if isinstance(at, ast.stmt) else A.stmt_of(at, self.parent)
        cfg = self.cfg
        if tgt not in cfg.node_of:
            return all_ + ([(None, None, "param")] if is_param else [])
        out = []
        known = [s2 for s2, _, _ in all_ if s2 in cfg.node_of]
        for st, v, k in all_:
            if st not in cfg.node_of:
                out.append((st, v, k))
                continue
            others = [s2 for s2 in known if s2 is not st and s2 is not tgt]
            # a statement sees its own definition only around a loop (path_exists starts from the successors)
            if cfg.path_exists(st, tgt, avoiding=others):
                out.append((st, v, k))
        if is_param:
            blockers = frozenset(cfg.ids([s2 for s2 in known if s2 is not tgt]))
            (t_id,) = cfg.ids([tgt])
            if t_id == cfg.entry.id or t_id in cfg.reach_from({cfg.entry.id}, avoiding=blockers) or t_id in cfg.succ.get(cfg.entry.id, ()):
                out.append((None, None, "param"))
        return out

    @staticmethod
    def restrict(facts, how):
        return {(fam, how if sel == "full" else f"{sel}|{how}", mem) for fam, sel, mem in facts}

    def facts(self, e, at, depth=0):
        if depth > 20 or e is None:
            return set()
        if isinstance(e, ast.Name):
            fam = family_of_base(e)
            res = set()
            for st, v, k in self.defs(e.id, at):
                if k == "param":
                    if fam and fam.startswith("blocks") and e.id.startswith("slices"):
                        res.add((fam, "full", "slices"))
                    else:
                        res |= self.adopted(e.id, depth)
                elif k == "assign" and v is not None:
                    res |= self.facts(v, st, depth + 1)
            return res
        if isinstance(e, ast.Attribute):
            if e.attr in BLOCK_ATTRS:
                fam = family_of_base(e.value)
                if fam and isinstance(e.value, ast.Name) and self.b.get(e.value.id):
                    # the struct itself may have been rebuilt with a narrowed block list: `struct = struct._replace(t=at, D=aD)`
                    res = set()
                    for st, v, k in self.defs(e.value.id, at):
                        if k == "param":
                            res.add((fam, "full", e.attr))
                        elif k == "assign" and isinstance(v, ast.Call) and isinstance(v.func, ast.Attribute) and v.func.attr == "_replace":
                            kwv = next((kw.value for kw in v.keywords if kw.arg == e.attr), None)
                            if kwv is not None:
                                got = self.facts(kwv, st, depth + 1)
                                res |= {(fam, sel, e.attr) for f_, sel, m_ in got} or {(fam, "full", e.attr)}
                            else:
                                res |= self.facts(ast.Attribute(value=v.func.value, attr=e.attr, ctx=ast.Load()), st, depth + 1)
                        else:
                            res.add((fam, "full", e.attr))
                    return res or {(fam, "full", e.attr)}
                if fam:
                    return {(fam, "full", e.attr)}
            if e.attr == "slices":
                fam = family_of_base(e)
                if fam:
                    return {(fam, "full", "slices")}
            return set()
        if isinstance(e, ast.Subscript):
            if isinstance(e.slice, ast.Slice):
                base = self.facts(e.value, at, depth + 1)
                if e.slice.lower is None and e.slice.upper is None and e.slice.step is None:
                    return base
                return self.restrict(base, f"slice:{A.text(e.slice)}")
            return set()
        if isinstance(e, ast.Starred):
            return self.facts(e.value, at, depth + 1)
        if isinstance(e, (ast.ListComp, ast.GeneratorExp)):
            if len(e.generators) != 1:
                return set()
            g = e.generators[0]
            out = set()
            if isinstance(g.target, ast.Name):
                # [S[i] ... for i in I]: sequences subscripted by the loop variable alone
                for n in ast.walk(e.elt):
                    if isinstance(n, ast.Subscript) and isinstance(n.slice, ast.Name) and n.slice.id == g.target.id:
                        out |= self.restrict(self.facts(n.value, at, depth + 1), f"sel:{A.text(g.iter)}")
            if not out:
                out = self.facts(g.iter, at, depth + 1)
            if g.ifs:
                out = self.restrict(out, "filter:" + " and ".join(A.text(c) for c in g.ifs))
            return out
        if isinstance(e, ast.IfExp):
            return self.facts(e.body, at, depth + 1) | self.facts(e.orelse, at, depth + 1)
        if isinstance(e, ast.Call):
            nm = A.call_name(e) or ""
            if nm in PRESERVING and e.args:
                return self.facts(e.args[0], at, depth + 1)
            if nm == "zip" and e.args:
                # a sequence of tuples over parallel sequences: as a sequence it went through what its arguments went through
                out = set()
                for a_ in e.args:
                    out |= self.facts(a_, at, depth + 1)
                return out
        return set()

    def adopted(self, name, depth):
        """A parameter that is zipped, in its initial value, with members of a family is itself parallel to that family (`minD` in
        `zip(struct.t, minD)` has one entry per block): it adopts the family with the partners' selection.  Sites that disagree give
        nothing."""
        if not hasattr(self, "_adopting"):
            self._adopting, self._adopted = set(), {}
        if name in self._adopted:
            return self._adopted[name]
        if name in self._adopting or depth > 12:
            return set()
        self._adopting.add(name)
        found = []
        try:
            for n in A.walk_local(self.fn, include_self=False):
                if not (isinstance(n, ast.Call) and A.call_name(n) == "zip" and len(n.args) >= 2):
                    continue
                if not any(isinstance(a, ast.Name) and a.id == name for a in n.args):
                    continue
                st = A.stmt_of(n, self.parent)
                ds = self.defs(name, st)
                if not ds or any(k != "param" for _, _, k in ds):
                    continue        # the name was rebound on some path to this site: not its initial value
                part = set()
                for a in n.args:
                    if isinstance(a, ast.Name) and a.id == name:
                        continue
                    part |= self.facts(a, st, depth + 1)
                part = {(f, s_, m) for f, s_, m in part if not m.startswith("adopt:")}
                if part:
                    fams = {f for f, _, _ in part}
                    if len(fams) == 1:
                        found.append(frozenset((f, s_) for f, s_, _ in part))
        finally:
            self._adopting.discard(name)
        out = set()
        if found and all(x == found[0] for x in found):
            out = {(f, s_, "adopt:" + name) for f, s_ in found[0]}
        self._adopted[name] = out
        return out

    def check(self):
        for n in A.walk_local(self.fn, include_self=False):
            if not (isinstance(n, ast.Call) and A.call_name(n) == "zip" and len(n.args) >= 2):
                continue
            st = A.stmt_of(n, self.parent)
            typed = [(a, self.facts(a, st)) for a in n.args]
            typed = [(a, o) for a, o in typed if o]
            fams = {}
            for a, o in typed:
                for fam in {f for f, _, _ in o}:
                    fams.setdefault(fam, []).append((a, frozenset(s for f, s, m in o if f == fam), frozenset(m for f, s, m in o if f == fam)))
            fams = {f: v for f, v in fams.items() if len(v) >= 2}
            if not fams:
                continue
            facts = {"arguments": {A.short(a, 40): sorted(f"{f}.{m} [{s}]" for f, s, m in o) for a, o in typed}}
            bad = None
            for fam, members in fams.items():
                for i in range(len(members)):
                    for k in range(i + 1, len(members)):
                        m1, m2 = members[i], members[k]
                        # one and the same sequence paired with a shifted / restricted copy of itself (`zip(X, X[1:])`: adjacent entries)
                        # is not a pairing of *parallel* sequences
                        if m1[2] == m2[2]:
                            continue
                        if m1[1] != m2[1]:
                            bad = (fam, (m1[0], m1[1]), (m2[0], m2[1]))
            if bad:
                fam, (a1, s1), (a2, s2) = bad
                self.findings.append((n, f"`{A.short(n, 70)}` pairs `{A.short(a1, 30)}` ({', '.join(sorted(s1))}) with `{A.short(a2, 30)}` "
                                         f"({', '.join(sorted(s2))}): both enumerate the {fam}, but they were not narrowed by the same selection -- "
                                         f"on the path where only one of them is restricted, entry k of one describes another block/sector than entry k "
                                         f"of the other (shape and charges of one block combined with the data of another)", facts))
            else:
                self.findings.append((n, None, facts))
