"""E0.3 statement-level control-flow graph with path queries.

One node per simple statement and per branch test.  Exits are distinguished:
``exit_return`` (return statements and falling off the end) and ``exit_raise``
(raise statements not caught inside the function).  Only *explicit* ``raise``
is modelled as exceptional flow; implicit exceptions of calls are modelled for
statements inside a ``try`` body (edge to every handler) and nowhere else, which
is the usual convention for guard rules: a guard is `if c: raise`.

Queries are plain reachability computations, so they are exact on the graph:
 * ``must_pass(targets, through)``  every entry→target path contains a `through` node
 * ``always_followed(src, by, exits)`` every path from src to one of `exits` contains a `by` node
 * ``reachable(a, b, avoiding)``
"""
from __future__ import annotations

import ast
from collections import defaultdict

from .errors import AnalysisError


class Node:
    __slots__ = ("id", "kind", "ast", "label")

    def __init__(self, id, kind, astnode=None, label=""):
        self.id = id
        self.kind = kind
        self.ast = astnode
        self.label = label

    def __repr__(self):
        ln = getattr(self.ast, "lineno", "")
        return f"<{self.id}:{self.kind}@{ln}>"


class CFG:
    def __init__(self, func: ast.FunctionDef, loop_body=False):
        """loop_body=True: `func.body` is the body of a loop analysed on its own; break/continue at its top
        level leave through the normal exit."""
        self.func = func
        self.nodes: list[Node] = []
        self.succ = defaultdict(set)
        self.pred = defaultdict(set)
        self.edge_label = {}           # (a, b) -> 'T' | 'F' | 'exc' | ''
        self.if_of = {}                # test node id -> ast.If
        self.entry = self._new("entry")
        self.exit_return = self._new("exit_return")
        self.exit_raise = self._new("exit_raise")
        self.node_of = {}              # ast stmt / test expr -> Node
        self._loops = []               # (continue_target, break_collector)
        self._trys = []                # list of handler-entry collectors
        self._finals = []              # pending finally bodies (list of stmts)
        brk = set()
        if loop_body:
            self._loops.append((self.exit_return.id, brk))
        out = self._seq(func.body, {self.entry.id})
        for p in out | brk:
            self._edge(p, self.exit_return.id)

    # ----------------------------------------------------------- construction
    def _new(self, kind, astnode=None, label=""):
        n = Node(len(self.nodes), kind, astnode, label)
        self.nodes.append(n)
        if astnode is not None and astnode not in self.node_of:
            self.node_of[astnode] = n
        return n

    def _edge(self, a, b, label=""):
        self.succ[a].add(b)
        self.pred[b].add(a)
        if label:
            self.edge_label[(a, b)] = label

    def _link(self, preds, n, labels=None):
        for p in preds:
            self._edge(p, n.id, (labels or {}).get(p, ""))

    def _seq(self, stmts, preds, labels=None):
        cur = set(preds)
        lab = labels
        for st in stmts:
            if not cur:
                break  # unreachable code
            cur = self._stmt(st, cur, lab)
            lab = None
        return cur

    def _in_try(self, n):
        """A statement inside a try body may raise into any handler."""
        if self._trys:
            self._trys[-1].add(n.id)

    def _stmt(self, st, preds, labels=None):
        if isinstance(st, (ast.FunctionDef, ast.AsyncFunctionDef, ast.ClassDef)):
            n = self._new("def", st)
            self._link(preds, n, labels)
            return {n.id}
        if isinstance(st, ast.If):
            t = self._new("test", st.test, "if")
            self.node_of[st] = t
            self.if_of[t.id] = st
            self._link(preds, t, labels)
            self._in_try(t)
            tb = self._seq(st.body, {t.id}, {t.id: "T"})
            if st.orelse:
                fb = self._seq(st.orelse, {t.id}, {t.id: "F"})
                return tb | fb
            return tb | {t.id}
        if isinstance(st, (ast.For, ast.AsyncFor)):
            h = self._new("loop", st, "for")
            self._link(preds, h, labels)
            self._in_try(h)
            brk = set()
            self._loops.append((h.id, brk))
            body_out = self._seq(st.body, {h.id}, {h.id: "T"})
            self._loops.pop()
            for p in body_out:
                self._edge(p, h.id)
            out = {h.id}
            if st.orelse:
                out = self._seq(st.orelse, {h.id}, {h.id: "F"})
            return out | brk
        if isinstance(st, ast.While):
            h = self._new("test", st.test, "while")
            self.node_of[st] = h
            self._link(preds, h, labels)
            self._in_try(h)
            brk = set()
            self._loops.append((h.id, brk))
            body_out = self._seq(st.body, {h.id}, {h.id: "T"})
            self._loops.pop()
            for p in body_out:
                self._edge(p, h.id)
            infinite = isinstance(st.test, ast.Constant) and bool(st.test.value)
            out = set() if infinite else {h.id}
            if st.orelse and not infinite:
                out = self._seq(st.orelse, {h.id}, {h.id: "F"})
            return out | brk
        if isinstance(st, ast.Try) or (hasattr(ast, "TryStar") and isinstance(st, ast.TryStar)):
            raisers = set()
            self._trys.append(raisers)
            if st.finalbody:
                self._finals.append(st.finalbody)
            body_out = self._seq(st.body, preds, labels)
            self._trys.pop()
            # conservatively, the first statement may raise before doing anything: preds also raise
            else_out = self._seq(st.orelse, body_out) if st.orelse else body_out
            outs = set(else_out)
            for h in st.handlers:
                hn = self._new("except", h)
                for r in raisers | set(preds):
                    self._edge(r, hn.id, "exc")
                outs |= self._seq(h.body, {hn.id})
            if st.finalbody:
                self._finals.pop()
                if not st.handlers:
                    # exceptions propagate after finally: model as raise exit too
                    fin_exc = self._seq(st.finalbody, raisers) if raisers else set()
                    for p in fin_exc:
                        self._edge(p, self._raise_target())
                outs = self._seq(st.finalbody, outs)
            return outs
        if isinstance(st, (ast.With, ast.AsyncWith)):
            n = self._new("with", st)
            self._link(preds, n, labels)
            self._in_try(n)
            return self._seq(st.body, {n.id})
        if isinstance(st, ast.Return):
            n = self._new("return", st)
            self._link(preds, n, labels)
            self._in_try(n)
            cur = {n.id}
            for fb in reversed(self._finals):
                cur = self._seq(fb, cur)
            for p in cur:
                self._edge(p, self.exit_return.id)
            return set()
        if isinstance(st, ast.Raise):
            n = self._new("raise", st)
            self._link(preds, n, labels)
            if self._trys:
                self._trys[-1].add(n.id)
                # may also escape if no handler matches — keep both (conservative for "all paths" queries)
                self._edge(n.id, self.exit_raise.id)
            else:
                self._edge(n.id, self.exit_raise.id)
            return set()
        if isinstance(st, ast.Break):
            n = self._new("break", st)
            self._link(preds, n, labels)
            if not self._loops:
                raise AnalysisError("break outside loop")
            self._loops[-1][1].add(n.id)
            return set()
        if isinstance(st, ast.Continue):
            n = self._new("continue", st)
            self._link(preds, n, labels)
            self._edge(n.id, self._loops[-1][0])
            return set()
        if isinstance(st, ast.Assert):
            n = self._new("stmt", st)
            self._link(preds, n, labels)
            self._in_try(n)
            return {n.id}
        if hasattr(ast, "Match") and isinstance(st, ast.Match):
            raise AnalysisError("match statement not supported by the CFG builder")
        # simple statements
        n = self._new("stmt", st)
        self._link(preds, n, labels)
        self._in_try(n)
        return {n.id}

    def _raise_target(self):
        return self.exit_raise.id

    # ----------------------------------------------------------------- queries
    def reach_from(self, starts, avoiding=frozenset(), forward=True):
        adj = self.succ if forward else self.pred
        seen = set()
        todo = [s for s in starts if s not in avoiding]
        while todo:
            x = todo.pop()
            if x in seen:
                continue
            seen.add(x)
            for y in adj[x]:
                if y not in seen and y not in avoiding:
                    todo.append(y)
        return seen

    def ids(self, nodes):
        out = set()
        for n in nodes:
            if isinstance(n, Node):
                out.add(n.id)
            elif isinstance(n, int):
                out.add(n)
            else:
                nn = self.node_of.get(n)
                if nn is None:
                    raise AnalysisError(f"statement not in CFG: {ast.unparse(n)[:60]}")
                out.add(nn.id)
        return out

    def must_pass(self, targets, through):
        """True iff every path entry -> any target contains a node of `through` (strictly before or at)."""
        t = self.ids(targets)
        th = self.ids(through)
        r = self.reach_from({self.entry.id}, avoiding=frozenset(th - t))
        # a target that is itself a `through` node counts as passing
        return not any(x in r and x not in th for x in t)

    def always_followed(self, src, by, exits=None, strict=True):
        """True iff every path from src (exclusive if strict) to an exit in `exits`
        (default: normal-return exit) contains a node of `by`."""
        s = self.ids([src]) if not isinstance(src, (set, frozenset, list)) else self.ids(src)
        b = self.ids(by)
        ex = self.ids(exits) if exits is not None else {self.exit_return.id}
        starts = set()
        for x in s:
            if strict:
                starts |= self.succ[x]
            else:
                starts.add(x)
        r = self.reach_from(starts, avoiding=frozenset(b))
        return not (r & ex)

    def path_exists(self, a, b, avoiding=()):
        a = self.ids(a if isinstance(a, (set, list, frozenset)) else [a])
        b = self.ids(b if isinstance(b, (set, list, frozenset)) else [b])
        av = self.ids(avoiding)
        starts = set()
        for x in a:
            starts |= self.succ[x]
        return bool(self.reach_from(starts, avoiding=frozenset(av)) & b)

    def dominators_of(self, target):
        """Set of node ids that dominate `target` (computed by removal: d dominates t iff
        t is unreachable from entry when d is removed)."""
        (t,) = self.ids([target])
        base = self.reach_from({self.entry.id})
        if t not in base:
            return set()
        out = set()
        for d in base:
            if d == t:
                continue
            if t not in self.reach_from({self.entry.id}, avoiding=frozenset({d})):
                out.add(d)
        return out

    def specialised(self, assume):
        """A view of the graph under the assumption `assume` (name -> bool): out-edges of `if` tests that the assumption
        decides are pruned.  Only tests built from the assumed names with not/and/or are decided; everything else keeps
        both edges, so every path of the real program under the assumption is a path of the view."""
        import copy
        g = copy.copy(self)
        g.succ = defaultdict(set, {k: set(v) for k, v in self.succ.items()})
        g.pred = defaultdict(set, {k: set(v) for k, v in self.pred.items()})
        for tid, st in self.if_of.items():
            v = partial_eval(st.test, assume)
            if v is None:
                continue
            for s in list(g.succ[tid]):
                lab = self.edge_label.get((tid, s), "") or "F"
                if lab == "exc":
                    continue
                if (lab == "T") != v:
                    g.succ[tid].discard(s)
                    g.pred[s].discard(tid)
        return g

    def stmt_nodes(self):
        return [n for n in self.nodes if n.ast is not None]

    def branch_guard(self, test_node_id, target_id):
        """Which outcomes ('T','F') of the test node can lead to target: returns subset of {'T','F'}."""
        out = set()
        for s in self.succ[test_node_id]:
            lab = self.edge_label.get((test_node_id, s), "F" if self.nodes[test_node_id].kind == "test" else "")
            if s == target_id or target_id in self.reach_from({s}, avoiding=frozenset({test_node_id})):
                out.add(lab or "F")
        return out

    def count_paths(self, limit=100000):
        """Number of acyclic entry->exit paths (back edges ignored), capped."""
        order = []
        seen = set()

        def dfs(x):
            seen.add(x)
            for y in self.succ[x]:
                if y not in seen:
                    dfs(y)
            order.append(x)
        import sys
        sys.setrecursionlimit(10000)
        dfs(self.entry.id)
        pos = {x: i for i, x in enumerate(order)}
        cnt = defaultdict(int)
        for x in order:  # reverse topological (post-order)
            if x in (self.exit_return.id, self.exit_raise.id):
                cnt[x] = 1
                continue
            c = 0
            for y in self.succ[x]:
                if pos.get(y, -1) < pos[x]:   # forward/cross edge in DFS post-order
                    c += cnt[y]
            cnt[x] = min(c, limit)
        return cnt[self.entry.id]


class _NotNone:
    """assumption value: some object that is not None (nothing else is known about it)"""
    def __repr__(self):
        return "<not None>"


NOTNONE = _NotNone()


def partial_eval(test, assume):
    """three-valued evaluation of a boolean test under `assume` (name -> bool): True / False / None (unknown)"""
    if isinstance(test, ast.Compare) and len(test.ops) == 1 and isinstance(test.left, ast.Name) and assume.get(test.left.id) is NOTNONE:
        c = test.comparators[0]
        if isinstance(c, ast.Constant) and c.value is None:
            if isinstance(test.ops[0], ast.Is):
                return False
            if isinstance(test.ops[0], ast.IsNot):
                return True
        return None
    if isinstance(test, ast.Name) and assume.get(test.id) is NOTNONE:
        return None
    if isinstance(test, ast.Name):
        v = assume.get(test.id)
        return v if isinstance(v, bool) or v is None else bool(v)
    if isinstance(test, ast.Constant) and isinstance(test.value, bool):
        return test.value
    if isinstance(test, ast.UnaryOp) and isinstance(test.op, ast.Not):
        v = partial_eval(test.operand, assume)
        return None if v is None else (not v)
    if isinstance(test, ast.BoolOp):
        vs = [partial_eval(v, assume) for v in test.values]
        if isinstance(test.op, ast.And):
            if any(v is False for v in vs):
                return False
            return True if all(v is True for v in vs) else None
        if any(v is True for v in vs):
            return True
        return False if all(v is False for v in vs) else None
    if isinstance(test, ast.Compare) and len(test.ops) == 1 and isinstance(test.left, ast.Name) and test.left.id in assume \
            and not isinstance(assume[test.left.id], bool):
        # a parameter assumed to hold a given (string / None / number) value, compared with literals
        v = assume[test.left.id]
        c = test.comparators[0]
        op = test.ops[0]
        try:
            cv = ast.literal_eval(c)
        except Exception:
            return None
        if isinstance(op, ast.Eq):
            return v == cv
        if isinstance(op, ast.NotEq):
            return v != cv
        if isinstance(op, ast.Is):
            return v is cv
        if isinstance(op, ast.IsNot):
            return v is not cv
        if isinstance(op, ast.In) and isinstance(cv, (tuple, list, set, str)):
            return v in cv
        if isinstance(op, ast.NotIn) and isinstance(cv, (tuple, list, set, str)):
            return v not in cv
        return None
    if isinstance(test, ast.Name) and test.id in assume and not isinstance(assume[test.id], bool):
        return bool(assume[test.id])
    if isinstance(test, ast.Compare) and len(test.ops) == 1 and isinstance(test.left, ast.Name) and test.left.id in assume \
            and isinstance(test.comparators[0], ast.Constant) and isinstance(test.comparators[0].value, bool):
        v = assume[test.left.id]
        c = test.comparators[0].value
        if isinstance(test.ops[0], (ast.Is, ast.Eq)):
            return v == c
        if isinstance(test.ops[0], (ast.IsNot, ast.NotEq)):
            return v != c
    return None


def specialise_expr(node, assume):
    """the sub-expression an IfExp reduces to under the assumption (recursively), else the node itself"""
    while isinstance(node, ast.IfExp):
        v = partial_eval(node.test, assume)
        if v is None:
            return node
        node = node.body if v else node.orelse
    return node
