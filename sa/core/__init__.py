from .errors import AnalysisError  # noqa: F401
