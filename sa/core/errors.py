class AnalysisError(Exception):
    """The analysis itself cannot be carried out (vanished anchor, instance floor
    not met, unrecognised shape).  Reported as ANALYSIS-ERROR, exit code 2 — never
    a pass and never a VIOLATION."""
