"""E3c `seqrev` — reversal consistency of parallel sequences.

Some sequences are *parallel by construction*: the sectors of a leg (`leg.t`, `leg.D`), the sites of an MPS in sweep
order (`psi.sweep(to='last')` ascending, `to='first'` descending).  Code frequently walks them backwards (`[::-1]`,
`reversed`, `sweep(to='first')`); pairing one walked forwards with its partner walked backwards (`zip`) silently
attributes every entry to the mirror element — invisible for palindromic data (equal sector dimensions, uniform product
states), wrong otherwise.

Every sequence-valued expression gets a set of (family, reversed?) facts:
    X.t, X.D                       ('SECT', X)   not reversed
    X.sweep(to='last'|'first')     ('SITE', X)   not reversed | reversed          (non-literal `to`: symbolic)
    S[::-1], reversed(S)           flips          S[::k] with a non-literal k: symbolic 'k'
    [f(e) for e in S], tuple(S), list(S), enumerate(S), accumulate(S), S[a:b]    as S
    `A if c else B`                union
    a local name                   union over the definitions that reach the use (CFG), appended lists: order of the loop
and every zip(...) must not pair two arguments of the same family with different *definite* orientations (symbolic
orientations are compared by their text and never with definite ones).
"""
from __future__ import annotations

import ast

from . import astutil as A
from .cfg import CFG

PRESERVING = {"tuple", "list", "enumerate", "iter", "accumulate", "itertools.accumulate", "sorted_keep"}


class RevOrder:
    def __init__(self, fn):
        self.fn = fn
        self.b = A.local_bindings(fn)
        self.parent = A.enclosing_map(fn)
        self._cfg = None
        a = fn.args
        self.params = {x.arg for x in a.posonlyargs + a.args + a.kwonlyargs}
        self.findings = []      # (zip node, message | None, facts)

    @property
    def cfg(self):
        if self._cfg is None:
            self._cfg = CFG(self.fn)
        return self._cfg

    def defs(self, name, at):
        all_ = list(self.b.get(name, []))
        if len(all_) <= 1 or at is None:
            return all_
        tgt = at if isinstance(at, ast.stmt) else A.stmt_of(at, self.parent)
        cfg = self.cfg
        if tgt not in cfg.node_of:
            return all_
        out = []
        for st, v, k in all_:
            if st not in cfg.node_of:
                out.append((st, v, k))
                continue
            others = [s2 for s2, _, _ in all_ if s2 is not st and s2 is not tgt and s2 in cfg.node_of]
            if cfg.path_exists(st, tgt, avoiding=others):
                out.append((st, v, k))
        return out

    @staticmethod
    def flip(facts, how=1):
        out = set()
        for fam, rev in facts:
            if how == 1:
                out.add((fam, 1 - rev if rev in (0, 1) else f"-({rev})"))
            else:
                out.add((fam, how if rev == 0 else f"{how}*({rev})"))
        return out

    def order(self, e, at, depth=0):
        if depth > 10 or e is None:
            return set()
        if isinstance(e, ast.Name):
            res = set()
            for st, v, k in self.defs(e.id, at):
                if k == "assign" and v is not None:
                    if isinstance(v, (ast.List, ast.Tuple)) and not v.elts:
                        res |= self.append_order(e.id, depth + 1)
                    else:
                        res |= self.order(v, st, depth + 1)
            return res
        if isinstance(e, ast.Attribute) and e.attr in ("t", "D") and isinstance(e.value, ast.Name):
            return {(("SECT", e.value.id), 0)}
        if isinstance(e, ast.Subscript) and isinstance(e.slice, ast.Slice):
            base = self.order(e.value, at, depth + 1)
            st_ = e.slice.step
            if st_ is None:
                return base
            k = A.neg_const(st_)
            if k == -1 and e.slice.lower is None and e.slice.upper is None:
                return self.flip(base)
            if k == 1:
                return base
            if k is None and e.slice.lower is None and e.slice.upper is None:
                return self.flip(base, how=f"sym:{A.text(st_)}")
            return set()
        if isinstance(e, ast.Starred):
            return self.order(e.value, at, depth + 1)
        if isinstance(e, (ast.ListComp, ast.GeneratorExp)):
            return self.order(e.generators[0].iter, at, depth + 1)
        if isinstance(e, ast.IfExp):
            return self.order(e.body, at, depth + 1) | self.order(e.orelse, at, depth + 1)
        if isinstance(e, ast.Call):
            nm = A.call_name(e) or ""
            if isinstance(e.func, ast.Attribute) and e.func.attr == "sweep" and isinstance(e.func.value, ast.Name):
                to = A.kwarg(e, "to") or (e.args[0] if e.args else None)
                fam = ("SITE", e.func.value.id)
                if to is None:
                    return {(fam, 0)}
                if isinstance(to, ast.Constant) and to.value in ("last", "first"):
                    return {(fam, 0 if to.value == "last" else 1)}
                return {(fam, f"sym:{A.text(to)}")}
            if nm == "reversed" and e.args:
                return self.flip(self.order(e.args[0], at, depth + 1))
            if nm in PRESERVING and e.args:
                return self.order(e.args[0], at, depth + 1)
            if nm == "zip":
                out = set()
                for a in e.args:
                    out |= self.order(a, at, depth + 1)
                return out
        return set()

    def append_order(self, name, depth):
        out = set()
        for n in A.walk_local(self.fn, include_self=False):
            if isinstance(n, ast.Call) and isinstance(n.func, ast.Attribute) and n.func.attr == "append" and isinstance(n.func.value, ast.Name) \
                    and n.func.value.id == name:
                cur, loop = n, None
                while cur in self.parent:
                    cur = self.parent[cur]
                    if isinstance(cur, ast.For):
                        loop = cur
                if loop is not None:
                    out |= self.order(loop.iter, loop, depth + 1)
        return out

    def check(self):
        for n in A.walk_local(self.fn, include_self=False):
            if not (isinstance(n, ast.Call) and A.call_name(n) == "zip" and len(n.args) >= 2):
                continue
            st = A.stmt_of(n, self.parent)
            typed = [(a, self.order(a, st)) for a in n.args]
            typed = [(a, o) for a, o in typed if o]
            if len(typed) < 2:
                continue
            bad = None
            for i in range(len(typed)):
                for j in range(i + 1, len(typed)):
                    for fam1, r1 in typed[i][1]:
                        for fam2, r2 in typed[j][1]:
                            if fam1 != fam2:
                                continue
                            definite = r1 in (0, 1) and r2 in (0, 1)
                            symbolic = r1 not in (0, 1) and r2 not in (0, 1)
                            if (definite or symbolic) and r1 != r2:
                                bad = (typed[i][0], fam1, r1, typed[j][0], r2)
            facts = {"arguments": {A.short(a, 40): sorted(f"{fam[0]}({fam[1]}){'' if r == 0 else ' reversed' if r == 1 else ' ' + str(r)}" for fam, r in o)
                                   for a, o in typed}}
            if bad:
                a1, fam, r1, a2, r2 = bad
                what = "sectors of leg" if fam[0] == "SECT" else "sites of"
                self.findings.append((n, f"`{A.short(n, 70)}` pairs `{A.short(a1, 30)}` and `{A.short(a2, 30)}`, both enumerating the {what} `{fam[1]}`, "
                                         f"one {'backwards' if r1 == 1 else 'forwards' if r1 == 0 else 'with orientation ' + str(r1)} and the other "
                                         f"{'backwards' if r2 == 1 else 'forwards' if r2 == 0 else 'with orientation ' + str(r2)} (on some path): entry k of one is "
                                         f"paired with the mirror entry of the other — unnoticed only for palindromic data", facts))
            else:
                self.findings.append((n, None, facts))
