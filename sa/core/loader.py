"""E0.1 program model: parses every module of the package under analysis.

Nothing is imported or executed.  The model offers
 * modules by dotted name, with top-level defs, classes, imports, constants;
 * classes with their methods, including functions bound as methods by
   class-body ``from ._x import f`` (how ``class Tensor`` gets ~90 methods);
 * name resolution through ``import``/``from .. import`` (also ``*``);
 * a digest of the sources consulted.
"""
from __future__ import annotations

import ast
import hashlib
import os
from dataclasses import dataclass, field

from .errors import AnalysisError

REPO = os.environ.get("SA_REPO", "/repo")
PKG = "yastn"


@dataclass
class FuncInfo:
    name: str
    module: "ModuleInfo"
    node: ast.FunctionDef
    cls: "ClassInfo | None" = None      # class in whose body the def textually sits
    bound_to: list = field(default_factory=list)   # ClassInfo's binding it as a method

    @property
    def qualname(self):
        if self.cls is not None:
            return f"{self.module.name}.{self.cls.name}.{self.name}"
        return f"{self.module.name}.{self.name}"

    @property
    def short(self):
        if self.cls is not None:
            return f"{self.cls.name}.{self.name}"
        if self.bound_to:
            return f"{self.bound_to[0].name}.{self.name}"
        return self.name

    @property
    def params(self):
        a = self.node.args
        return [x.arg for x in a.posonlyargs + a.args] + \
               ([a.vararg.arg] if a.vararg else []) + \
               [x.arg for x in a.kwonlyargs] + ([a.kwarg.arg] if a.kwarg else [])

    @property
    def pos_params(self):
        a = self.node.args
        return [x.arg for x in a.posonlyargs + a.args]

    @property
    def decorators(self):
        out = []
        for d in self.node.decorator_list:
            out.append(ast.unparse(d))
        return out

    @property
    def relpath(self):
        return self.module.relpath

    def where(self, node=None):
        ln = getattr(node, "lineno", self.node.lineno)
        return f"{self.module.relpath}:{ln}"


@dataclass
class ClassInfo:
    name: str
    module: "ModuleInfo"
    node: ast.ClassDef
    bases: list
    methods: dict = field(default_factory=dict)      # name -> FuncInfo (own + class-body imports)
    class_consts: dict = field(default_factory=dict)  # name -> value node

    @property
    def qualname(self):
        return f"{self.module.name}.{self.name}"


@dataclass
class ModuleInfo:
    name: str
    path: str
    relpath: str
    source: str
    tree: ast.Module
    is_pkg: bool
    funcs: dict = field(default_factory=dict)
    classes: dict = field(default_factory=dict)
    imports: dict = field(default_factory=dict)     # local name -> ('mod', modname) | ('attr', modname, attr)
    star_imports: list = field(default_factory=list)
    consts: dict = field(default_factory=dict)      # name -> list of value nodes (all top-level assignments)
    all: list | None = None

    @property
    def package(self):
        return self.name if self.is_pkg else self.name.rpartition(".")[0]


def _abs_module(cur: ModuleInfo, level: int, module: str | None) -> str:
    if level == 0:
        return module or ""
    base = cur.package.split(".")
    if level > 1:
        base = base[: len(base) - (level - 1)]
    if module:
        base = base + module.split(".")
    return ".".join(base)


class Program:
    def __init__(self, repo: str | None = None, pkg: str = PKG):
        self.repo = repo or REPO
        self.pkg = pkg
        # SA_NORMALISE=1: analyse the N1 normal form (unknown private helpers inlined, sa/core/normalise.py)
        self.normalise = os.environ.get("SA_NORMALISE", "") in ("1", "2")      # "1": N1 only, "2": N1 + N2
        self.unroll = os.environ.get("SA_NORMALISE", "") == "2"
        self.normal_info = {}
        self.modules: dict[str, ModuleInfo] = {}
        self.consulted: set[str] = set()
        self._load()

    # ------------------------------------------------------------------ load
    def _load(self):
        root = os.path.join(self.repo, self.pkg)
        if not os.path.isdir(root):
            raise AnalysisError(f"package directory {root} not found")
        for dirpath, dirnames, filenames in os.walk(root):
            dirnames[:] = sorted(d for d in dirnames if d != "__pycache__")
            for fn in sorted(filenames):
                if not fn.endswith(".py"):
                    continue
                path = os.path.join(dirpath, fn)
                rel = os.path.relpath(path, self.repo)
                parts = rel[:-3].split(os.sep)
                is_pkg = parts[-1] == "__init__"
                if is_pkg:
                    parts = parts[:-1]
                name = ".".join(parts)
                with open(path, "r", encoding="utf-8") as f:
                    src = f.read()
                try:
                    tree = ast.parse(src, filename=path)
                except SyntaxError as e:
                    raise AnalysisError(f"cannot parse {rel}: {e}") from e
                if self.normalise:
                    from .normalise import normalise_module
                    exported = ()
                    for st in tree.body:
                        if isinstance(st, ast.Assign) and any(isinstance(t, ast.Name) and t.id == "__all__" for t in st.targets):
                            try:
                                exported = tuple(ast.literal_eval(st.value))
                            except Exception:
                                exported = ()
                    tree, info = normalise_module(tree, exported, unroll=self.unroll)
                    if info["call_sites"] or info.get("loops_unrolled"):
                        self.normal_info[rel] = info
                m = ModuleInfo(name=name, path=path, relpath=rel, source=src, tree=tree, is_pkg=is_pkg)
                self.modules[name] = m
        for m in self.modules.values():
            self._index(m)
        for m in self.modules.values():
            self._bind_class_imports(m)

    def _index(self, m: ModuleInfo):
        for st in m.tree.body:
            self._index_stmt(m, st)

    def _index_stmt(self, m, st):
        if isinstance(st, (ast.FunctionDef, ast.AsyncFunctionDef)):
            m.funcs[st.name] = FuncInfo(st.name, m, st)
        elif isinstance(st, ast.ClassDef):
            ci = ClassInfo(st.name, m, st, [ast.unparse(b) for b in st.bases])
            m.classes[st.name] = ci
            for b in st.body:
                if isinstance(b, (ast.FunctionDef, ast.AsyncFunctionDef)):
                    ci.methods[b.name] = FuncInfo(b.name, m, b, cls=ci)
                elif isinstance(b, ast.Assign):
                    for t in b.targets:
                        if isinstance(t, ast.Name):
                            ci.class_consts[t.id] = b.value
                elif isinstance(b, ast.AnnAssign) and isinstance(b.target, ast.Name) and b.value is not None:
                    ci.class_consts[b.target.id] = b.value
        elif isinstance(st, ast.Import):
            for a in st.names:
                local = a.asname or a.name.split(".")[0]
                m.imports[local] = ("mod", a.name if a.asname else a.name.split(".")[0])
        elif isinstance(st, ast.ImportFrom):
            mod = _abs_module(m, st.level, st.module)
            for a in st.names:
                if a.name == "*":
                    m.star_imports.append(mod)
                else:
                    m.imports[a.asname or a.name] = ("attr", mod, a.name)
        elif isinstance(st, ast.Assign):
            for t in st.targets:
                if isinstance(t, ast.Name):
                    m.consts.setdefault(t.id, []).append(st.value)
                    if t.id == "__all__":
                        try:
                            m.all = list(ast.literal_eval(st.value))
                        except Exception:
                            m.all = None
        elif isinstance(st, ast.AnnAssign) and isinstance(st.target, ast.Name) and st.value is not None:
            m.consts.setdefault(st.target.id, []).append(st.value)
        elif isinstance(st, (ast.If, ast.Try)):
            # conditional top-level definitions (try: import ... except ImportError)
            for sub in ast.iter_child_nodes(st):
                if isinstance(sub, ast.stmt):
                    self._index_stmt(m, sub)
                elif isinstance(sub, ast.ExceptHandler):
                    for s2 in sub.body:
                        self._index_stmt(m, s2)

    def _bind_class_imports(self, m: ModuleInfo):
        for ci in m.classes.values():
            for b in ci.node.body:
                if isinstance(b, ast.ImportFrom):
                    mod = _abs_module(m, b.level, b.module)
                    src = self.modules.get(mod)
                    for a in b.names:
                        if src is None or a.name not in src.funcs:
                            raise AnalysisError(
                                f"class {ci.qualname} binds {a.name} from {mod}, which has no such top-level def")
                        fi = src.funcs[a.name]
                        fi.bound_to.append(ci)
                        ci.methods[a.asname or a.name] = fi

    # ---------------------------------------------------------------- access
    def module(self, name: str) -> ModuleInfo:
        if not name.startswith(self.pkg):
            name = f"{self.pkg}.{name}" if name else self.pkg
        m = self.modules.get(name)
        if m is None:
            raise AnalysisError(f"anchor module {name} not found")
        self.consulted.add(m.relpath)
        return m

    def func(self, module: str, name: str) -> FuncInfo:
        """Top-level def ``name`` or method ``Class.name`` of ``module`` (anchor: must exist)."""
        m = self.module(module)
        if "." in name:
            cn, _, fn = name.partition(".")
            ci = m.classes.get(cn)
            if ci is None or fn not in ci.methods:
                raise AnalysisError(f"anchor {m.relpath}::{name} not found")
            return ci.methods[fn]
        if name not in m.funcs:
            raise AnalysisError(f"anchor {m.relpath}::{name} not found")
        return m.funcs[name]

    def cls(self, module: str, name: str) -> ClassInfo:
        m = self.module(module)
        if name not in m.classes:
            raise AnalysisError(f"anchor class {m.relpath}::{name} not found")
        return m.classes[name]

    def has_func(self, module: str, name: str) -> bool:
        try:
            self.func(module, name)
            return True
        except AnalysisError:
            return False

    def all_funcs(self, modules=None):
        """Every def (top-level, methods, nested excluded) of the given modules."""
        for mn, m in sorted(self.modules.items()):
            if modules is not None and mn not in modules:
                continue
            self.consulted.add(m.relpath)
            for f in m.funcs.values():
                yield f
            for c in m.classes.values():
                for f in c.methods.values():
                    if f.cls is c:
                        yield f

    # ------------------------------------------------------------ resolution
    def resolve(self, m: ModuleInfo, name: str, _seen=None):
        """Resolve a bare name in module ``m``: returns FuncInfo | ClassInfo | ModuleInfo |
        ('const', module, [value nodes]) | ('external', dotted) | None."""
        _seen = _seen or set()
        key = (m.name, name)
        if key in _seen:
            return None
        _seen.add(key)
        if name in m.funcs:
            return m.funcs[name]
        if name in m.classes:
            return m.classes[name]
        if name in m.consts:
            return ("const", m, m.consts[name])
        if name in m.imports:
            imp = m.imports[name]
            if imp[0] == "mod":
                if imp[1] in self.modules:
                    return self.modules[imp[1]]
                return ("external", imp[1])
            _, mod, attr = imp
            if mod in self.modules:
                sub = f"{mod}.{attr}"
                target = self.modules[mod]
                r = self.resolve(target, attr, _seen)
                if r is not None:
                    return r
                if sub in self.modules:
                    return self.modules[sub]
                return None
            return ("external", f"{mod}.{attr}")
        for mod in m.star_imports:
            if mod in self.modules:
                target = self.modules[mod]
                if target.all is not None and name not in target.all:
                    # __all__ of tensor/__init__ is extended dynamically; fall through to a lookup
                    if not target.is_pkg:
                        continue
                r = self.resolve(target, name, _seen)
                if r is not None:
                    return r
        return None

    def resolve_attr_chain(self, m: ModuleInfo, node: ast.AST):
        """Resolve ``a.b.c`` where ``a`` is a module alias; returns like resolve() or None."""
        parts = []
        cur = node
        while isinstance(cur, ast.Attribute):
            parts.append(cur.attr)
            cur = cur.value
        if not isinstance(cur, ast.Name):
            return None
        base = self.resolve(m, cur.id)
        for attr in reversed(parts):
            if isinstance(base, ModuleInfo):
                sub = f"{base.name}.{attr}"
                r = self.resolve(base, attr)
                if r is None and sub in self.modules:
                    r = self.modules[sub]
                base = r
            elif isinstance(base, ClassInfo):
                base = base.methods.get(attr) or (("classconst", base, base.class_consts[attr])
                                                  if attr in base.class_consts else None)
            elif isinstance(base, tuple) and base[0] == "external":
                base = ("external", base[1] + "." + attr)
            else:
                return None
        return base

    def class_mro(self, ci: ClassInfo):
        """Linearised (approximate, depth-first, left-to-right) list of repository base classes."""
        out, seen = [], set()

        def go(c):
            if c.qualname in seen:
                return
            seen.add(c.qualname)
            out.append(c)
            for b in c.node.bases:
                r = None
                if isinstance(b, ast.Name):
                    r = self.resolve(c.module, b.id)
                elif isinstance(b, ast.Attribute):
                    r = self.resolve_attr_chain(c.module, b)
                if isinstance(r, ClassInfo):
                    go(r)
        go(ci)
        return out

    def lookup_method(self, ci: ClassInfo, name: str):
        for c in self.class_mro(ci):
            if name in c.methods:
                return c.methods[name]
        return None

    def subclasses(self, ci: ClassInfo):
        out = []
        for m in self.modules.values():
            for c in m.classes.values():
                if c is not ci and ci in self.class_mro(c):
                    out.append(c)
        return out

    def all_classes(self):
        for m in self.modules.values():
            for c in m.classes.values():
                yield c

    # ---------------------------------------------------------------- digest
    def digest(self):
        h = hashlib.sha256()
        for rel in sorted(self.consulted):
            mod = next(m for m in self.modules.values() if m.relpath == rel)
            h.update(rel.encode())
            h.update(mod.source.encode())
        return h.hexdigest()[:16]
