"""Normal form N1 + N2: private helper functions that the rules do not know by name are inlined into their callers (N1), loops over
short literal tables are unrolled (N2, class _Unroller below).

Why.  The rules are recognisers of code *shapes*.  Extracting a few lines into a new private helper (or splitting a long
function in two) leaves behaviour unchanged but hides the shape from an intra-procedural recogniser.  Inlining is a
semantics-preserving transformation, so a rule that holds on the inlined program holds on the program.  The checks
therefore run on the tree as written first and, only if that run does not end with exit 0, once more on the N1 normal
form; the verdict "holds" of either run is accepted (a *violation* verdict of a recogniser is only meaningful on the form
it recognises).  Which helpers are inlined is decided without reference to any particular refactoring:

  * module-level function whose name starts with `_`, is not decorated, is not a method, is not exported in `__all__`,
  * its name does not occur anywhere in the sources of the rules (sa/props, sa/core) — helpers the rules know are anchors,
  * body (after the docstring) contains no nested def/lambda/yield/global/nonlocal, no `return` except possibly one as the
    very last statement, is not recursive,
  * parameters are plain positional-or-keyword parameters (defaults allowed), no *args/**kwargs.

Call sites that are inlined: statements `T = h(...)`, `T1, T2 = h(...)`, `h(...)`, `return h(...)`, `T += ...` is not.
Calls nested inside larger expressions are left alone.  Locals of the helper get the suffix `__<helper>` (so they cannot
capture names of the caller); a parameter is replaced by the argument expression when the argument is a plain name,
attribute chain or constant and the helper never rebinds the parameter, otherwise it is bound by an assignment first.
Inlining is repeated up to three rounds (helpers calling helpers).
"""
from __future__ import annotations

import ast
import copy
import os
import re

_KNOWN = None


def known_names():
    """identifiers that occur in the sources of the rules: functions with these names are anchors and never inlined"""
    global _KNOWN
    if _KNOWN is None:
        here = os.path.dirname(os.path.dirname(os.path.abspath(__file__)))
        names = set()
        for sub in ("props", "core"):
            d = os.path.join(here, sub)
            for fn in os.listdir(d):
                if fn.endswith(".py"):
                    with open(os.path.join(d, fn), encoding="utf-8") as f:
                        names.update(re.findall(r"[A-Za-z_][A-Za-z0-9_]*", f.read()))
        _KNOWN = names
    return _KNOWN


def _strip_doc(body):
    if body and isinstance(body[0], ast.Expr) and isinstance(body[0].value, ast.Constant) and isinstance(body[0].value.value, str):
        return body[1:]
    return body


def _candidate(fn: ast.FunctionDef, exported):
    if not fn.name.startswith("_") or fn.name.startswith("__") or fn.decorator_list or fn.name in exported or fn.name in known_names():
        return False
    a = fn.args
    if a.vararg or a.kwarg or a.kwonlyargs or a.posonlyargs:
        return False
    body = _strip_doc(fn.body)
    if not body:
        return False
    for n in ast.walk(fn):
        if n is fn:
            continue
        if isinstance(n, (ast.FunctionDef, ast.AsyncFunctionDef, ast.Lambda, ast.Yield, ast.YieldFrom, ast.Global, ast.Nonlocal, ast.ClassDef,
                          ast.Await)):
            return False
        if isinstance(n, ast.Call) and isinstance(n.func, ast.Name) and n.func.id == fn.name:
            return False
    rets = [n for n in ast.walk(fn) if isinstance(n, ast.Return)]
    if len(rets) > 1 or (rets and rets[0] is not body[-1]):
        # several exits: such a helper can still replace a tail call `return h(..)` -- its returns become the caller's returns
        return "tail"
    return True


def _bound_names(fn):
    out = set()
    for n in ast.walk(fn):
        if isinstance(n, ast.Name) and isinstance(n.ctx, (ast.Store, ast.Del)):
            out.add(n.id)
        elif isinstance(n, ast.ExceptHandler) and n.name:
            out.add(n.name)
        elif isinstance(n, (ast.Import, ast.ImportFrom)):
            for al in n.names:
                out.add(al.asname or al.name.split(".")[0])
    return out


def _simple_arg(e):
    while isinstance(e, ast.Attribute):
        e = e.value
    return isinstance(e, (ast.Name, ast.Constant))


def _inline_call(helper: ast.FunctionDef, call: ast.Call, targets, as_return, site, tail=False, recv=None):
    """-> list of statements replacing the call statement, or None if the call cannot be matched to the parameters"""
    params = [p.arg for p in helper.args.args]
    defaults = helper.args.defaults
    dmap = {p: d for p, d in zip(params[len(params) - len(defaults):], defaults)}
    pos_args = ([recv] if recv is not None else []) + list(call.args)
    if any(isinstance(x, ast.Starred) for x in call.args) or any(k.arg is None for k in call.keywords) or len(pos_args) > len(params):
        return None
    actual = {}
    for p, a in zip(params, pos_args):
        actual[p] = a
    for k in call.keywords:
        if k.arg not in params or k.arg in actual:
            return None
        actual[k.arg] = k.value
    for p in params:
        if p not in actual:
            if p not in dmap:
                return None
            actual[p] = dmap[p]
    bound = _bound_names(helper)
    suffix = "__" + helper.name.strip("_")
    rename = {n: n + suffix for n in bound if n not in params}
    identity = set()
    # `T1, T2 = h(..)` with `return l1, l2` (distinct helper locals): the locals take the caller's names directly and the final copy
    # disappears -- provided the caller's names occur neither in the arguments nor as free names of the helper (no capture)
    direct = False
    rstmt = _strip_doc(helper.body)[-1] if _strip_doc(helper.body) else None
    if targets is not None and not as_return and len(targets) == 1 and isinstance(rstmt, ast.Return) and rstmt.value is not None:
        tg, rv = targets[0], rstmt.value
        tnames = [tg.id] if isinstance(tg, ast.Name) else ([e.id for e in tg.elts] if isinstance(tg, (ast.Tuple, ast.List)) and all(isinstance(e, ast.Name) for e in tg.elts) else None)
        rnames = [rv.id] if isinstance(rv, ast.Name) else ([e.id for e in rv.elts] if isinstance(rv, ast.Tuple) and all(isinstance(e, ast.Name) for e in rv.elts) else None)
        identity = set()
        if tnames and rnames and len(tnames) == len(rnames) and len(set(rnames)) == len(rnames) and len(set(tnames)) == len(tnames) \
                and all(r in bound for r in rnames):
            # a returned name may be a parameter the helper rebinds (`U, S, V = mask.apply_mask(U, S, V)`): it takes the caller's name too;
            # when the caller passes that very name for it (U for U) the binding of the parameter is the identity and disappears
            for r, t in zip(rnames, tnames):
                if r in params and isinstance(actual.get(r), ast.Name) and actual[r].id == t:
                    identity.add(r)
            argnames = {x.id for p_, a_ in actual.items() if p_ not in identity for x in ast.walk(a_) if isinstance(x, ast.Name)}
            free = {x.id for x in ast.walk(helper) if isinstance(x, ast.Name)} - set(bound) - set(params)
            if not (set(tnames) & (argnames | free)) and not (set(tnames) & ((set(bound) | set(params)) - set(rnames))):
                for r, t in zip(rnames, tnames):
                    rename[r] = t
                direct = True
            else:
                identity = set()
    pre = []
    subst = {}
    for p in params:
        if direct and p in identity:
            continue                      # parameter and caller's name coincide: nothing to bind
        if direct and p in rename and rename[p] != p + suffix and p in bound:
            pre.append(ast.Assign(targets=[ast.Name(id=rename[p], ctx=ast.Store())], value=copy.deepcopy(actual[p])))
            continue
        if p not in bound and _simple_arg(actual[p]):
            subst[p] = actual[p]
        else:
            rename[p] = p + suffix
            pre.append(ast.Assign(targets=[ast.Name(id=p + suffix, ctx=ast.Store())], value=copy.deepcopy(actual[p])))

    class R(ast.NodeTransformer):
        def visit_Name(self, n):
            if n.id in subst and isinstance(n.ctx, ast.Load):
                return copy.deepcopy(subst[n.id])
            if n.id in rename:
                return ast.Name(id=rename[n.id], ctx=n.ctx)
            return n

        def visit_ExceptHandler(self, n):
            self.generic_visit(n)
            if n.name in rename:
                n.name = rename[n.name]
            return n
    body = [R().visit(copy.deepcopy(st)) for st in _strip_doc(helper.body)]
    out = pre
    if tail and as_return:
        out += body
        if not (body and isinstance(body[-1], ast.Return)):
            out.append(ast.Return(value=ast.Constant(value=None)))
    elif body and isinstance(body[-1], ast.Return):
        ret = body.pop()
        out += body
        val = ret.value if ret.value is not None else ast.Constant(value=None)
        if as_return:
            out.append(ast.Return(value=val))
        elif direct:
            pass
        elif targets is not None:
            out.append(ast.Assign(targets=copy.deepcopy(targets), value=val))
        else:
            out.append(ast.Expr(value=val))
    else:
        out += body
        if as_return:
            out.append(ast.Return(value=ast.Constant(value=None)))
        elif targets is not None:
            out.append(ast.Assign(targets=copy.deepcopy(targets), value=ast.Constant(value=None)))
    for st in out:
        for n in ast.walk(st):
            ast.copy_location(n, site)
            n.end_lineno = getattr(site, "end_lineno", site.lineno)
    return out


class _Inliner(ast.NodeTransformer):
    def __init__(self, helpers, kinds=None, methods=None):
        self.helpers = helpers
        self.kinds = kinds or {}
        self.methods = methods or {}      # class name -> {method name: (FunctionDef, kind)}
        self.count = 0
        self.used = set()
        self.cur = None
        self.cur_cls = None
        self.cur_recv = None

    def visit_ClassDef(self, node):
        prev, self.cur_cls = self.cur_cls, node.name
        self.generic_visit(node)
        self.cur_cls = prev
        return node

    def _try_method(self, st):
        """`self._m(..)` inside a method of the same class, for private methods the rules do not know"""
        if self.cur_cls is None or self.cur_recv is None or self.cur_cls not in self.methods:
            return None
        call = targets = None
        as_return = False
        if isinstance(st, ast.Assign) and isinstance(st.value, ast.Call):
            call, targets = st.value, st.targets
        elif isinstance(st, ast.Expr) and isinstance(st.value, ast.Call):
            call = st.value
        elif isinstance(st, ast.Return) and isinstance(st.value, ast.Call):
            call, as_return = st.value, True
        if call is None or not (isinstance(call.func, ast.Attribute) and isinstance(call.func.value, ast.Name) and call.func.value.id == self.cur_recv):
            return None
        ent = self.methods[self.cur_cls].get(call.func.attr)
        if ent is None or call.func.attr == self.cur:
            return None
        h, kind = ent
        if kind == "tail" and not as_return:
            return None
        new = _inline_call(h, call, targets, as_return, st, tail=kind == "tail", recv=ast.Name(id=self.cur_recv, ctx=ast.Load()))
        if new is not None:
            self.count += 1
            self.used.add(f"{self.cur_cls}.{h.name}")
        return new

    def _try(self, st):
        call = targets = None
        as_return = False
        rep = self._try_method(st)
        if rep is not None:
            return rep
        if isinstance(st, ast.Assign) and isinstance(st.value, ast.Call):
            call, targets = st.value, st.targets
        elif isinstance(st, ast.Expr) and isinstance(st.value, ast.Call):
            call = st.value
        elif isinstance(st, ast.Return) and isinstance(st.value, ast.Call):
            call, as_return = st.value, True
        if call is None or not isinstance(call.func, ast.Name) or call.func.id not in self.helpers or call.func.id == self.cur:
            return None
        h = self.helpers[call.func.id]
        if self.kinds.get(h.name) == "tail" and not as_return:
            return None
        new = _inline_call(h, call, targets, as_return, st, tail=self.kinds.get(h.name) == "tail")
        if new is not None:
            self.count += 1
            self.used.add(h.name)
        return new

    def _block(self, stmts):
        out = []
        for st in stmts:
            st = self.visit(st)
            rep = self._try(st) if isinstance(st, ast.stmt) else None
            if rep is None:
                out.append(st)
            else:
                out.extend(rep)
        return out

    def generic_visit(self, node):
        for fld in ("body", "orelse", "finalbody"):
            blk = getattr(node, fld, None)
            if isinstance(blk, list) and blk and isinstance(blk[0], ast.stmt):
                setattr(node, fld, self._block(blk))
        for h in getattr(node, "handlers", []) or []:
            h.body = self._block(h.body)
        return node

    def visit_FunctionDef(self, node):
        prev, self.cur = self.cur, node.name
        prev_r = self.cur_recv
        self.cur_recv = node.args.args[0].arg if (self.cur_cls is not None and node.args.args and not any(
            (isinstance(d, ast.Name) and d.id in ("staticmethod", "classmethod")) for d in node.decorator_list)) else None
        self.generic_visit(node)
        self.cur = prev
        self.cur_recv = prev_r
        return node


class _ExprInliner(ast.NodeTransformer):
    """N1b: a call of an unknown private helper whose whole body is `return <expression>` is replaced by that expression (arguments
    substituted; only when every argument is a name, attribute chain or constant, so that nothing is evaluated twice or in another
    order).  This covers helpers used inside larger expressions (e.g. a one-line predicate used in an `if not helper(x, y):` test)."""

    def __init__(self, helpers):
        self.helpers = {k: h for k, h in helpers.items() if len(_strip_doc(h.body)) == 1 and isinstance(_strip_doc(h.body)[0], ast.Return)
                        and _strip_doc(h.body)[0].value is not None}
        self.count = 0
        self.used = set()

    def visit_Call(self, c):
        self.generic_visit(c)
        if isinstance(c.func, ast.Name) and c.func.id in self.helpers and not c.keywords and all(_simple_arg(a) for a in c.args):
            h = self.helpers[c.func.id]
            params = [p.arg for p in h.args.args]
            comp_vars = {n.id for g in ast.walk(h) if isinstance(g, ast.comprehension) for n in ast.walk(g.target) if isinstance(n, ast.Name)}
            arg_names = {n.id for a in c.args for n in ast.walk(a) if isinstance(n, ast.Name)}
            if len(params) != len(c.args) or (_bound_names(h) - comp_vars) or (comp_vars & (arg_names | set(params))):
                return c
            sub = dict(zip(params, c.args))

            class S(ast.NodeTransformer):
                def visit_Name(self, n):
                    return copy.deepcopy(sub[n.id]) if n.id in sub and isinstance(n.ctx, ast.Load) else n
            body = _strip_doc(h.body)[0].value
            # comprehension variables of the helper are bound names: _bound_names() found none, so the expression has no binders
            new = S().visit(copy.deepcopy(body))
            for n in ast.walk(new):
                ast.copy_location(n, c)
            self.count += 1
            self.used.add(h.name)
            return new
        return c


class _Unroller(ast.NodeTransformer):
    """N2: `for <targets> in <literal tuple/list with at most 12 rows>` is replaced by one copy of its body per row, with the loop
    variables replaced by the row's element expressions.  Applied only when the loop has no else/break/continue, the loop variables
    are not rebound in the body and are not used after the loop, and (for tuple targets) every row is a literal tuple of matching
    length.  The iterable may be a name bound exactly once in the function to such a literal."""

    def __init__(self):
        self.count = 0
        self.fn_stack = []

    def visit_FunctionDef(self, node):
        self.fn_stack.append(node)
        self.generic_visit(node)
        self.fn_stack.pop()
        return node

    def _literal(self, it):
        if isinstance(it, ast.Name) and self.fn_stack:
            fn = self.fn_stack[-1]
            defs = [n for n in ast.walk(fn) if isinstance(n, ast.Assign) and len(n.targets) == 1 and isinstance(n.targets[0], ast.Name)
                    and n.targets[0].id == it.id]
            stores = [n for n in ast.walk(fn) if isinstance(n, ast.Name) and n.id == it.id and isinstance(n.ctx, ast.Store)]
            if len(defs) == 1 and len(stores) == 1:
                it = defs[0].value
        return it if isinstance(it, (ast.Tuple, ast.List)) and 1 <= len(it.elts) <= 12 else None

    def _unroll(self, node):
        lit = self._literal(node.iter)
        if lit is None:
            return None
        # search form: `for row in TABLE: if <cond(row)>: <stmts>; break` (with optional for-else) is an if/elif chain
        search = len(node.body) == 1 and isinstance(node.body[0], ast.If) and not node.body[0].orelse and node.body[0].body \
            and isinstance(node.body[0].body[-1], ast.Break) \
            and not any(isinstance(x, (ast.Break, ast.Continue)) for b in node.body[0].body[:-1] for x in ast.walk(b))
        if node.orelse and not search:
            return None
        if not search and any(isinstance(x, (ast.Break, ast.Continue)) for b in node.body for x in ast.walk(b)):
            return None
        names = []
        if isinstance(node.target, ast.Name):
            names = [node.target.id]
        elif isinstance(node.target, (ast.Tuple, ast.List)) and all(isinstance(e, ast.Name) for e in node.target.elts):
            names = [e.id for e in node.target.elts]
            if not all(isinstance(r, (ast.Tuple, ast.List)) and len(r.elts) == len(names) for r in lit.elts):
                return None
        else:
            return None
        if any(isinstance(x, ast.Name) and x.id in names and isinstance(x.ctx, (ast.Store, ast.Del)) for b in node.body for x in ast.walk(b)):
            return None
        if self.fn_stack:
            fn = self.fn_stack[-1]
            end = getattr(node, "end_lineno", node.lineno)
            if any(isinstance(x, ast.Name) and x.id in names and isinstance(x.ctx, ast.Load) and x.lineno > end for x in ast.walk(fn)):
                return None
        if any(isinstance(x, ast.Starred) for r in lit.elts for x in ast.walk(r)):
            return None
        out = []
        chain = []
        for r in lit.elts:
            vals = [r] if isinstance(node.target, ast.Name) else list(r.elts)
            sub = dict(zip(names, vals))

            class R(ast.NodeTransformer):
                def visit_Name(self, n):
                    return copy.deepcopy(sub[n.id]) if n.id in sub and isinstance(n.ctx, ast.Load) else n

                def visit_Call(self, c):
                    self.generic_visit(c)
                    # f(x, *(<literal tuple>)) -> f(x, <elements>)
                    new_args = []
                    for a in c.args:
                        if isinstance(a, ast.Starred) and isinstance(a.value, (ast.Tuple, ast.List)):
                            new_args.extend(a.value.elts)
                        else:
                            new_args.append(a)
                    c.args = new_args
                    return c
            if search:
                it = node.body[0]
                chain.append((R().visit(copy.deepcopy(it.test)), [R().visit(copy.deepcopy(st)) for st in it.body[:-1]] or [ast.Pass()]))
            else:
                for st in node.body:
                    out.append(R().visit(copy.deepcopy(st)))
        if search:
            tail = [copy.deepcopy(st) for st in node.orelse]
            for test, body in reversed(chain):
                tail = [ast.If(test=test, body=body, orelse=tail)]
            out = tail
            for st in out:
                for n in ast.walk(st):
                    ast.copy_location(n, node)
        self.count += 1
        return out

    def generic_visit(self, node):
        super().generic_visit(node)
        for fld in ("body", "orelse", "finalbody"):
            blk = getattr(node, fld, None)
            if isinstance(blk, list) and blk and isinstance(blk[0], ast.stmt):
                new = []
                for st in blk:
                    rep = self._unroll(st) if isinstance(st, ast.For) else None
                    new.extend(rep if rep is not None else [st])
                setattr(node, fld, new)
        return node


class _CompToLoop(ast.NodeTransformer):
    """N1e: `xs = [h(..) for T in IT]` with h an unknown private helper becomes `xs = []; for T in IT: xs.append(h(..))` written as
    `tmp = h(..); xs.append(tmp)` so that N1 can inline h.  Same values in the same order; the loop variables T become function-level
    names, so the rewrite is made only when they occur nowhere else in the function."""

    def __init__(self, helper_names):
        self.helper_names = helper_names
        self.count = 0

    def visit_FunctionDef(self, node):
        self.generic_visit(node)
        names_elsewhere = {}
        for x in ast.walk(node):
            if isinstance(x, ast.Name):
                names_elsewhere[x.id] = names_elsewhere.get(x.id, 0) + 1

        def rewrite(stmts):
            out = []
            for st in stmts:
                for fld in ("body", "orelse", "finalbody"):
                    blk = getattr(st, fld, None)
                    if isinstance(blk, list) and blk and isinstance(blk[0], ast.stmt):
                        setattr(st, fld, rewrite(blk))
                v = st.value if isinstance(st, ast.Assign) and len(st.targets) == 1 and isinstance(st.targets[0], ast.Name) else None
                if isinstance(v, ast.ListComp) and len(v.generators) == 1 and not v.generators[0].ifs and not v.generators[0].is_async \
                        and isinstance(v.elt, ast.Call) and isinstance(v.elt.func, ast.Name) and v.elt.func.id in self.helper_names:
                    g = v.generators[0]
                    tn = [x.id for x in ast.walk(g.target) if isinstance(x, ast.Name)]
                    inside = {}
                    for x in ast.walk(v):
                        if isinstance(x, ast.Name):
                            inside[x.id] = inside.get(x.id, 0) + 1
                    if all(names_elsewhere.get(t, 0) == inside.get(t, 0) for t in tn) and st.targets[0].id not in inside:
                        xs = st.targets[0].id
                        tmp = f"{xs}__item"
                        loop = ast.For(target=g.target, iter=g.iter, orelse=[], type_comment=None, body=[
                            ast.Assign(targets=[ast.Name(id=tmp, ctx=ast.Store())], value=v.elt),
                            ast.Expr(value=ast.Call(func=ast.Attribute(value=ast.Name(id=xs, ctx=ast.Load()), attr="append", ctx=ast.Load()),
                                                    args=[ast.Name(id=tmp, ctx=ast.Load())], keywords=[]))])
                        init = ast.Assign(targets=[ast.Name(id=xs, ctx=ast.Store())], value=ast.List(elts=[], ctx=ast.Load()))
                        for n_ in (init, loop):
                            for y in ast.walk(n_):
                                ast.copy_location(y, st)
                        out += [init, loop]
                        self.count += 1
                        continue
                out.append(st)
            return out
        node.body = rewrite(node.body)
        return node


class _NestedExprInliner(ast.NodeTransformer):
    """N1d: a nested function whose body is one `return <expression>` (e.g. a local predicate `def linked(d01, d10): return ...`) is
    expanded at its calls inside the enclosing function: parameters replaced by the (name / constant) arguments, free variables stay as
    they are -- valid because the enclosing function does not rebind them after the definition (checked), so they denote the same
    objects at the call as inside the nested function.  The nested def is dropped when no reference to it remains."""

    def __init__(self):
        self.count = 0

    def visit_FunctionDef(self, node):
        self.generic_visit(node)
        nested = {}
        for st in node.body:
            if isinstance(st, ast.FunctionDef) and not st.decorator_list:
                body = _strip_doc(st.body)
                a = st.args
                if len(body) == 1 and isinstance(body[0], ast.Return) and body[0].value is not None and not (a.vararg or a.kwarg or a.kwonlyargs or a.posonlyargs or a.defaults):
                    params = [p.arg for p in a.args]
                    free = {x.id for x in ast.walk(body[0].value) if isinstance(x, ast.Name)} - set(params)
                    rebound_later = any(isinstance(x, ast.Name) and isinstance(x.ctx, (ast.Store, ast.Del)) and x.id in free and getattr(x, "lineno", 0) > st.lineno
                                        for x in ast.walk(node) if not any(x is y for y in ast.walk(st)))
                    inner_binds = any(isinstance(x, (ast.NamedExpr, ast.Lambda, ast.Yield, ast.Await)) for x in ast.walk(body[0].value))
                    if not rebound_later and not inner_binds:
                        nested[st.name] = (params, body[0].value)
        if not nested:
            return node
        outer = self

        class R(ast.NodeTransformer):
            def visit_FunctionDef(self, n):
                return n if n.name in nested else self.generic_visit(n)

            def visit_Call(self, c):
                self.generic_visit(c)
                def _plain(a_):
                    while isinstance(a_, ast.Attribute):
                        a_ = a_.value
                    return isinstance(a_, (ast.Name, ast.Constant))
                if isinstance(c.func, ast.Name) and c.func.id in nested and not c.keywords and all(_plain(a_) for a_ in c.args):
                    params, expr = nested[c.func.id]
                    if len(params) == len(c.args):
                        sub = dict(zip(params, c.args))
                        comp_vars = {n.id for g in ast.walk(expr) if isinstance(g, ast.comprehension) for n in ast.walk(g.target) if isinstance(n, ast.Name)}
                        if comp_vars & ({x.id for a_ in c.args for x in ast.walk(a_) if isinstance(x, ast.Name)} | set(params)):
                            return c

                        class S(ast.NodeTransformer):
                            def visit_Name(self, n):
                                return copy.deepcopy(sub[n.id]) if n.id in sub and isinstance(n.ctx, ast.Load) else n
                        outer.count += 1
                        return ast.copy_location(S().visit(copy.deepcopy(expr)), c)
                return c
        node.body = [R().visit(st) for st in node.body]
        refs = {x.id for x in ast.walk(node) if isinstance(x, ast.Name) and isinstance(x.ctx, ast.Load)}
        node.body = [st for st in node.body if not (isinstance(st, ast.FunctionDef) and st.name in nested and st.name not in refs)] or [ast.Pass()]
        return node


class _CallableTemps(ast.NodeTransformer):
    """N1c: `g = methodcaller('m', *a)` ... `g(x)`  ->  `x.m(*a)`;   `g = partial(f, *a, **k)` ... `g(*b)`  ->  `f(*a, *b, **k)`
    for locals bound exactly once (the temporaries stay, unused).  Pure rewriting of call syntax: operator.methodcaller and
    functools.partial are defined to behave exactly like the rewritten calls."""

    def __init__(self):
        self.count = 0

    def visit_Call(self, c):
        self.generic_visit(c)
        # getattr(x, 'name')  ->  x.name   (two-argument form with a literal identifier)
        if isinstance(c.func, ast.Name) and c.func.id == "getattr" and len(c.args) == 2 and not c.keywords and isinstance(c.args[1], ast.Constant) \
                and isinstance(c.args[1].value, str) and c.args[1].value.isidentifier():
            self.count += 1
            return ast.copy_location(ast.Attribute(value=c.args[0], attr=c.args[1].value, ctx=ast.Load()), c)
        return c

    def visit_FunctionDef(self, node):
        self.generic_visit(node)
        binds = {}
        for n in ast.walk(node):
            if isinstance(n, ast.Name) and isinstance(n.ctx, (ast.Store, ast.Del)):
                binds[n.id] = binds.get(n.id, 0) + 1
        temps = {}
        for n in ast.walk(node):
            if isinstance(n, ast.Assign) and len(n.targets) == 1 and isinstance(n.targets[0], ast.Name) and binds.get(n.targets[0].id) == 1 \
                    and isinstance(n.value, ast.Call):
                fn_ = ast.unparse(n.value.func).split(".")[-1]
                if fn_ == "methodcaller" and n.value.args and isinstance(n.value.args[0], ast.Constant) and isinstance(n.value.args[0].value, str) \
                        and all(isinstance(a_, (ast.Name, ast.Constant)) for a_ in n.value.args[1:]) and not n.value.keywords:
                    temps[n.targets[0].id] = ("m", n.value)
                elif fn_ == "partial" and n.value.args and all(isinstance(a_, (ast.Name, ast.Constant, ast.Attribute)) for a_ in n.value.args) \
                        and all(k.arg is not None and isinstance(k.value, (ast.Name, ast.Constant, ast.Attribute)) for k in n.value.keywords):
                    temps[n.targets[0].id] = ("p", n.value)
        if not temps:
            return node
        outer = self

        class R(ast.NodeTransformer):
            def visit_Call(self, c):
                self.generic_visit(c)
                if isinstance(c.func, ast.Name) and c.func.id in temps:
                    kind, v = temps[c.func.id]
                    if kind == "m" and len(c.args) == 1 and not c.keywords and not isinstance(c.args[0], ast.Starred):
                        outer.count += 1
                        return ast.copy_location(ast.Call(func=ast.Attribute(value=c.args[0], attr=v.args[0].value, ctx=ast.Load()),
                                                          args=[copy.deepcopy(a_) for a_ in v.args[1:]], keywords=[]), c)
                    if kind == "p":
                        outer.count += 1
                        return ast.copy_location(ast.Call(func=copy.deepcopy(v.args[0]), args=[copy.deepcopy(a_) for a_ in v.args[1:]] + list(c.args),
                                                          keywords=[copy.deepcopy(k) for k in v.keywords] + list(c.keywords)), c)
                return c
        node.body = [R().visit(st) for st in node.body]
        return node


class _LambdaTemps(ast.NodeTransformer):
    """N1g: `g = lambda x: E` bound once in a function and only called: every `g(a)` with simple arguments becomes E[a/x] (the free names
    of E denote the same objects at the call as at the definition when the function does not rebind them in between -- checked: they are
    not assigned after the lambda).  Arises when a helper taking a callable (`_sum(fun)`) was inlined with a lambda argument."""

    def __init__(self):
        self.count = 0

    def visit_FunctionDef(self, node):
        self.generic_visit(node)
        lam = {}
        stores = {}
        for n in ast.walk(node):
            if isinstance(n, ast.Name) and isinstance(n.ctx, (ast.Store, ast.Del)):
                stores.setdefault(n.id, []).append(n)
        for st in ast.walk(node):
            if isinstance(st, ast.Assign) and len(st.targets) == 1 and isinstance(st.targets[0], ast.Name) and isinstance(st.value, ast.Lambda):
                nm = st.targets[0].id
                a = st.value.args
                if len(stores.get(nm, [])) != 1 or a.vararg or a.kwarg or a.kwonlyargs or a.defaults or a.posonlyargs:
                    continue
                params = [p.arg for p in a.args]
                free = {x.id for x in ast.walk(st.value.body) if isinstance(x, ast.Name)} - set(params)
                if any(getattr(x, "lineno", 0) > st.lineno for f_ in free for x in stores.get(f_, [])):
                    continue
                if any(isinstance(x, (ast.Lambda, ast.NamedExpr, ast.Yield, ast.Await, ast.comprehension)) for x in ast.walk(st.value.body)):
                    continue
                lam[nm] = (params, st.value.body, st)
        if not lam:
            return node
        outer = self

        class R(ast.NodeTransformer):
            def visit_Call(self, c):
                self.generic_visit(c)
                if isinstance(c.func, ast.Name) and c.func.id in lam and not c.keywords and all(_simple_arg(a_) or isinstance(a_, ast.Subscript) and _simple_arg(a_.value) and
                                                                                                  all(isinstance(x, (ast.Constant, ast.Name, ast.Slice, ast.Load, ast.Subscript, ast.Attribute)) for x in ast.walk(a_))
                                                                                                  for a_ in c.args):
                    params, body, _ = lam[c.func.id]
                    if len(params) == len(c.args):
                        sub = dict(zip(params, c.args))

                        class S(ast.NodeTransformer):
                            def visit_Name(self, n):
                                return copy.deepcopy(sub[n.id]) if n.id in sub and isinstance(n.ctx, ast.Load) else n
                        outer.count += 1
                        return ast.copy_location(S().visit(copy.deepcopy(body)), c)
                return c
        R().visit(node)
        # definitions that are no longer referenced disappear
        refs = {x.id for x in ast.walk(node) if isinstance(x, ast.Name) and isinstance(x.ctx, ast.Load)}
        dead = {id(v[2]) for k, v in lam.items() if k not in refs}
        if dead:
            class D(ast.NodeTransformer):
                def visit_Assign(self, st):
                    return None if id(st) in dead else st
            D().visit(node)
            for x in ast.walk(node):
                for fld in ("body", "orelse", "finalbody"):
                    blk = getattr(x, fld, None)
                    if isinstance(blk, list) and not blk and fld == "body":
                        setattr(x, fld, [ast.Pass()])
        return node


class _CondRebind(ast.NodeTransformer):
    """N1f:   v = E                      ->      v = F[E/v] if T else E
              if T: v = F(v)
    for a simple, side-effect free E (name / attribute / subscript / constant) and a test T that does not mention v: the statement
    form of a conditional expression (rules that read `reduced if periodic else raw` see one expression again)."""

    def __init__(self):
        self.count = 0

    @staticmethod
    def _simple(e):
        return all(isinstance(x, (ast.Name, ast.Attribute, ast.Subscript, ast.Constant, ast.Load, ast.Tuple, ast.Slice, ast.UnaryOp, ast.USub))
                   or (isinstance(x, ast.Call) and isinstance(x.func, ast.Name) and x.func.id == "len" and len(x.args) == 1 and not x.keywords)
                   for x in ast.walk(e))

    def _block(self, body):
        out, i = [], 0
        while i < len(body):
            st = body[i]
            nx = body[i + 1] if i + 1 < len(body) else None
            if isinstance(st, ast.Assign) and len(st.targets) == 1 and isinstance(st.targets[0], ast.Name) and self._simple(st.value) \
                    and isinstance(nx, ast.If) and not nx.orelse and len(nx.body) == 1 and isinstance(nx.body[0], ast.AugAssign) \
                    and isinstance(nx.body[0].target, ast.Name) and nx.body[0].target.id == st.targets[0].id and self._simple(nx.body[0].value) \
                    and not any(isinstance(x, ast.Name) and x.id == st.targets[0].id for x in ast.walk(nx.test)):
                # v = E; if T: v op= c   ->   v = (E op c) if T else E
                v = st.targets[0].id
                E = st.value
                F = ast.BinOp(left=copy.deepcopy(E), op=nx.body[0].op, right=copy.deepcopy(nx.body[0].value))
                new = ast.Assign(targets=[ast.Name(id=v, ctx=ast.Store())], value=ast.IfExp(test=nx.test, body=F, orelse=copy.deepcopy(E)))
                out.append(ast.copy_location(new, st))
                self.count += 1
                i += 2
                continue
            if isinstance(st, ast.Assign) and len(st.targets) == 1 and isinstance(st.targets[0], ast.Name) and self._simple(st.value) \
                    and isinstance(nx, ast.If) and not nx.orelse and len(nx.body) == 1 and isinstance(nx.body[0], ast.Assign) \
                    and len(nx.body[0].targets) == 1 and isinstance(nx.body[0].targets[0], ast.Name) and nx.body[0].targets[0].id == st.targets[0].id \
                    and not any(isinstance(x, ast.Name) and x.id == st.targets[0].id for x in ast.walk(nx.test)):
                v = st.targets[0].id
                E = st.value

                class R(ast.NodeTransformer):
                    def visit_Name(self, node):
                        return copy.deepcopy(E) if node.id == v and isinstance(node.ctx, ast.Load) else node
                F = R().visit(copy.deepcopy(nx.body[0].value))
                new = ast.Assign(targets=[ast.Name(id=v, ctx=ast.Store())], value=ast.IfExp(test=nx.test, body=F, orelse=copy.deepcopy(E)))
                out.append(ast.copy_location(new, st))
                self.count += 1
                i += 2
                continue
            # `if A: if B: body`  ->  `if A and B: body`   (no else on either)
            if isinstance(st, ast.If) and not st.orelse and len(st.body) == 1 and isinstance(st.body[0], ast.If) and not st.body[0].orelse:
                inner = st.body[0]
                new = ast.If(test=ast.BoolOp(op=ast.And(), values=[st.test, inner.test]), body=inner.body, orelse=[])
                out.append(ast.copy_location(new, st))
                self.count += 1
                i += 1
                continue
            # `if B < A: A = B`  ->  `A = min(A, B)`   (and the mirror images with >, max): builtin min(a, b) is b exactly when b < a
            if isinstance(st, ast.If) and not st.orelse and len(st.body) == 1 and isinstance(st.body[0], ast.Assign) and len(st.body[0].targets) == 1 \
                    and isinstance(st.body[0].targets[0], ast.Name) and isinstance(st.test, ast.Compare) and len(st.test.ops) == 1 \
                    and isinstance(st.test.ops[0], (ast.Lt, ast.Gt)) and self._simple(st.test.left) and self._simple(st.test.comparators[0]):
                Aname = st.body[0].targets[0].id
                Bexpr = st.body[0].value
                l, r = st.test.left, st.test.comparators[0]
                lt = isinstance(st.test.ops[0], ast.Lt)
                fn_ = None
                if ast.dump(l) == ast.dump(Bexpr) and isinstance(r, ast.Name) and r.id == Aname:
                    fn_ = "min" if lt else "max"          # B < A: A = B   /   B > A: A = B
                elif ast.dump(r) == ast.dump(Bexpr) and isinstance(l, ast.Name) and l.id == Aname:
                    fn_ = "max" if lt else "min"          # A < B: A = B   /   A > B: A = B
                if fn_ and self._simple(Bexpr):
                    new = ast.Assign(targets=[ast.Name(id=Aname, ctx=ast.Store())],
                                     value=ast.Call(func=ast.Name(id=fn_, ctx=ast.Load()), args=[ast.Name(id=Aname, ctx=ast.Load()), copy.deepcopy(Bexpr)], keywords=[]))
                    out.append(ast.copy_location(new, st))
                    self.count += 1
                    i += 1
                    continue
            out.append(st)
            i += 1
        return out

    def generic_visit(self, node):
        super().generic_visit(node)
        for fld in ("body", "orelse", "finalbody"):
            blk = getattr(node, fld, None)
            if isinstance(blk, list) and blk and isinstance(blk[0], ast.stmt):
                setattr(node, fld, self._block(blk))
        return node


def normalise_module(tree: ast.Module, exported=(), unroll=True):
    """inline unknown private helpers of this module into their callers (in place on a deep copy); returns (new tree, info)"""
    tree = copy.deepcopy(tree)
    info = {"helpers_inlined": [], "call_sites": 0}
    cl = _CompToLoop({st.name for st in tree.body if isinstance(st, ast.FunctionDef) and _candidate(st, set(exported)) is True})
    if cl.helper_names:
        cl.visit(tree)
        ast.fix_missing_locations(tree)
    for _round in range(3):
        kinds = {st.name: _candidate(st, set(exported)) for st in tree.body if isinstance(st, ast.FunctionDef)}
        helpers = {st.name: st for st in tree.body if isinstance(st, ast.FunctionDef) and kinds.get(st.name)}
        # private methods (unknown to the rules, not overridden / defined twice in the module) called on the receiver itself
        mcount = {}
        for c_ in tree.body:
            if isinstance(c_, ast.ClassDef):
                for m_ in c_.body:
                    if isinstance(m_, ast.FunctionDef):
                        mcount[m_.name] = mcount.get(m_.name, 0) + 1
        methods = {}
        for c_ in tree.body:
            if isinstance(c_, ast.ClassDef):
                for m_ in c_.body:
                    if isinstance(m_, ast.FunctionDef) and mcount.get(m_.name) == 1 and m_.args.args:
                        k_ = _candidate(m_, set(exported))
                        if k_:
                            methods.setdefault(c_.name, {})[m_.name] = (m_, k_)
        if not helpers and not methods:
            break
        inl = _Inliner(helpers, {k: v for k, v in kinds.items() if v}, methods)
        inl.visit(tree)
        if not inl.count:
            break
        info["call_sites"] += inl.count
        info["helpers_inlined"] = sorted(set(info["helpers_inlined"]) | inl.used)
    helpers = {st.name: st for st in tree.body if isinstance(st, ast.FunctionDef) and _candidate(st, set(exported)) is True}
    if helpers:
        ei = _ExprInliner(helpers)
        ei.visit(tree)
        info["call_sites"] += ei.count
        info["helpers_inlined"] = sorted(set(info["helpers_inlined"]) | ei.used)
    ct = _CallableTemps()
    ct.visit(tree)
    info["call_sites"] += ct.count
    lt = _LambdaTemps()
    lt.visit(tree)
    info["call_sites"] += lt.count
    if lt.count:
        info["helpers_inlined"] = sorted(set(info["helpers_inlined"]) | {"<local lambdas applied>"})
    cr = _CondRebind()
    cr.visit(tree)
    info["call_sites"] += cr.count
    if cr.count:
        info["helpers_inlined"] = sorted(set(info["helpers_inlined"]) | {"<conditional re-bindings as conditional expressions>"})
    ne = _NestedExprInliner()
    ne.visit(tree)
    info["call_sites"] += ne.count
    if ne.count:
        info["helpers_inlined"] = sorted(set(info["helpers_inlined"]) | {"<nested single-expression functions>"})
    # helpers whose every call was inlined are dead code on the normal form: dropped, so that no rule judges the helper out of context
    refs = {n.id for n in ast.walk(tree) if isinstance(n, ast.Name) and isinstance(n.ctx, ast.Load)} | \
           {n.attr for n in ast.walk(tree) if isinstance(n, ast.Attribute)}
    dead = {h for h in info["helpers_inlined"] if "." not in h and h not in refs}
    if dead:
        tree.body = [st for st in tree.body if not (isinstance(st, ast.FunctionDef) and st.name in dead)]
    for c_ in tree.body:
        if isinstance(c_, ast.ClassDef):
            deadm = {h.split(".", 1)[1] for h in info["helpers_inlined"] if h.startswith(c_.name + ".") and h.split(".", 1)[1] not in refs}
            if deadm:
                c_.body = [m_ for m_ in c_.body if not (isinstance(m_, ast.FunctionDef) and m_.name in deadm)] or [ast.Pass()]
    info["loops_unrolled"] = 0
    if unroll:
        un = _Unroller()
        un.visit(tree)
        info["loops_unrolled"] = un.count
    ast.fix_missing_locations(tree)
    return tree, info
