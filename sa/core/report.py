"""E0.6 reporting: obligations, instance floors, known findings, evidence, replay, exit codes."""
from __future__ import annotations

import hashlib
import json
import os
import time

from .astutil import text
from .errors import AnalysisError

VERIF = os.environ.get("SA_VERIF", os.path.dirname(os.path.dirname(os.path.dirname(os.path.abspath(__file__)))))
EVIDENCE_DIR = os.environ.get("SA_EVIDENCE_DIR", os.path.join(VERIF, "evidence"))
KNOWN_FILE = os.path.join(VERIF, "known_findings.json")


def load_known():
    if not os.path.exists(KNOWN_FILE):
        return []
    with open(KNOWN_FILE) as f:
        data = json.load(f)
    return [e for e in data.get("findings", []) if e.get("status", "known") == "known"]


class Finding:
    def __init__(self, pid, rule, relpath, func, construct, message, line=None, facts=None):
        self.pid, self.rule, self.relpath, self.func = pid, rule, relpath, func
        self.construct = text(construct) if not isinstance(construct, str) else text(construct)
        self.message = message
        self.line = line
        self.facts = facts or {}

    @property
    def key(self):
        return f"{self.rule}|{self.relpath}|{self.func}|{self.construct}"

    def as_dict(self):
        return {"property": self.pid, "rule": self.rule, "file": self.relpath, "function": self.func,
                "line": self.line, "construct": self.construct, "message": self.message,
                "facts": self.facts, "key": self.key}


class Check:
    """Collects the obligations of one property run."""

    def __init__(self, pid, tier, prog, seed=0):
        self.pid, self.tier, self.prog, self.seed = pid, tier, prog, seed
        self.t0 = time.time()
        self.rules = {}            # rule -> dict(desc, floor, ok, bad, undecided)
        self.findings: list[Finding] = []
        self.samples = []
        self.undecided_sites = []
        self.notes = []
        self.distinct = set()
        self.explanation = ""
        self.trusted_base = []
        self.assumptions = []
        self.extra = {}
        self.liveness = None

    # ------------------------------------------------------------ declaring
    def rule(self, rule, desc, floor=0):
        self.rules.setdefault(rule, {"desc": desc, "floor": floor, "ok": 0, "bad": 0, "undecided": 0})

    def _r(self, rule):
        if rule not in self.rules:
            self.rule(rule, "", 0)
        return self.rules[rule]

    @staticmethod
    def _loc(site):
        """site: FuncInfo | (FuncInfo, node) | (relpath, funcname, line)"""
        node = None
        if isinstance(site, tuple) and len(site) == 2:
            site, node = site
        if isinstance(site, tuple):
            return site
        fi = site
        line = getattr(node, "lineno", None) or fi.node.lineno
        return fi.relpath, fi.short, line

    def ok(self, rule, site, construct, facts=None, sample=True):
        r = self._r(rule)
        r["ok"] += 1
        rel, fn, line = self._loc(site)
        c = text(construct)
        self.distinct.add((rule, rel, fn, c))
        if sample and sum(1 for s in self.samples if s["rule"] == rule) < 3:
            self.samples.append({"rule": rule, "site": f"{rel}:{line}", "function": fn,
                                 "construct": c[:200], "verdict": "holds", "facts": facts or {}})

    def bad(self, rule, site, construct, message, facts=None):
        r = self._r(rule)
        r["bad"] += 1
        rel, fn, line = self._loc(site)
        f = Finding(self.pid, rule, rel, fn, construct, message, line, facts)
        self.distinct.add((rule, rel, fn, f.construct))
        self.findings.append(f)
        return f

    def undecided(self, rule, site, construct, why):
        r = self._r(rule)
        r["undecided"] += 1
        rel, fn, line = self._loc(site)
        self.undecided_sites.append({"rule": rule, "site": f"{rel}:{line}", "function": fn,
                                     "construct": text(construct)[:200], "why": why})

    def verdict(self, rule, site, construct, holds, message="", facts=None):
        """holds: True | False | None (undecided)"""
        if holds is True:
            self.ok(rule, site, construct, facts)
        elif holds is False:
            self.bad(rule, site, construct, message, facts)
        else:
            self.undecided(rule, site, construct, message)

    def require(self, cond, msg):
        if not cond:
            raise AnalysisError(msg)

    def note(self, msg):
        self.notes.append(msg)

    # ------------------------------------------------------------- finishing
    def finish(self):
        # instance floors (G-3)
        # The floor given with each rule is the number of instances confirmed by hand on the pinned tree.  It is enforced at 60 %
        # (at least 1): a refactoring that merges a few sites (a temporary instead of three reads, a loop over a table instead of
        # four ifs) must not be reported, a rule that matches (almost) nothing must.
        for name, r in self.rules.items():
            definite = r["ok"] + r["bad"]
            enforced = 0 if r["floor"] <= 0 else max(1, -(-r["floor"] * 6 // 10))
            r["enforced_floor"] = enforced
            if definite < enforced:
                raise AnalysisError(
                    f"rule {name}: {definite} definite instances found, {r['floor']} were confirmed by hand (enforced floor {enforced}) "
                    f"(rule would pass vacuously; anchors moved?)")
        known = [k for k in load_known() if k.get("property") == self.pid]
        known_keys = {k["key"]: k for k in known}
        new, listed = [], []
        for f in self.findings:
            (listed if f.key in known_keys else new).append(f)
        code = 0
        for f in listed:
            print(f"KNOWN-FINDING: property={self.pid} rule={f.rule} {f.relpath}:{f.line} {f.func}: "
                  f"{known_keys[f.key].get('what', f.message)}")
        os.makedirs(os.path.join(EVIDENCE_DIR, "replay"), exist_ok=True)
        for f in new:
            h = hashlib.sha256(f.key.encode()).hexdigest()[:10]
            path = os.path.join(EVIDENCE_DIR, "replay", f"{self.pid}-{h}.json")
            with open(path, "w") as fh:
                json.dump(f.as_dict(), fh, indent=1)
            print(f"VIOLATION property={self.pid} replay={path}")
            print(f"  rule {f.rule} ({self.rules[f.rule]['desc']})  {f.relpath}:{f.line}")
            print(f"  in {f.func}")
            print(f"  construct: {f.construct[:300]}")
            print(f"  {f.message}")
            if f.facts:
                print(f"  facts: {json.dumps(f.facts, default=str)[:400]}")
            code = 1
        self._write_evidence(len(new), len(listed))
        obligations = sum(r["ok"] + r["bad"] for r in self.rules.values())
        und = sum(r["undecided"] for r in self.rules.values())
        print(f"{self.pid} [{self.tier}] rules={len(self.rules)} obligations={obligations} "
              f"held={sum(r['ok'] for r in self.rules.values())} violations={len(new)} "
              f"known={len(listed)} undecided={und} wall={time.time() - self.t0:.2f}s")
        for name, r in sorted(self.rules.items()):
            print(f"  {name:5s} ok={r['ok']:<4d} bad={r['bad']:<3d} undecided={r['undecided']:<3d} floor={r['floor']:<3d} {r['desc']}")
        return code

    def _write_evidence(self, nviol, nknown):
        os.makedirs(EVIDENCE_DIR, exist_ok=True)
        obligations = sum(r["ok"] + r["bad"] for r in self.rules.values())
        discharged = sum(r["ok"] for r in self.rules.values())
        samples = list(self.samples)
        for f in self.findings[:5]:
            samples.append({"rule": f.rule, "site": f"{f.relpath}:{f.line}", "function": f.func,
                            "construct": f.construct[:200], "verdict": "violated", "message": f.message})
        cov = {
            "explanation": self.explanation,
            "evaluations": obligations + sum(r["undecided"] for r in self.rules.values()),
            "distinct_nontrivial": len(self.distinct),
            "rule": "one case = one rule instance (rule, file, function, normalised construct) found in the "
                    "current source tree; distinct by that key; non-trivial = the rule reached a definite "
                    "verdict (holds/violated) on it, undecided sites are not counted",
            "samples": samples,
            "obligations": obligations,
            "discharged": discharged,
            "checker_cmd": f"cd /verif && /venv/bin/python -m sa.check {self.pid} --tier {self.tier}",
            "trusted_base": self.trusted_base,
            "exhaustive": True,
            "rules": {k: {"description": v["desc"], "instances_held": v["ok"], "instances_violated": v["bad"],
                          "undecided": v["undecided"], "instance_floor": v["floor"]}
                      for k, v in sorted(self.rules.items())},
            "undecided_sites": self.undecided_sites[:60],
            "known_findings_reported": nknown,
            "notes": self.notes,
            "modules_consulted": sorted(self.prog.consulted),
            "source_digest": self.prog.digest(),
        }
        cov.update(self.extra)
        if self.liveness is not None:
            cov["liveness"] = self.liveness
        ev = {
            "property_id": self.pid,
            "tier": self.tier,
            "seed": self.seed,
            "level": "other",
            "coverage": cov,
            "assumptions": self.assumptions,
            "wall_s": round(time.time() - self.t0, 3),
            "violations": nviol,
        }
        with open(os.path.join(EVIDENCE_DIR, f"{self.pid}.json"), "w") as fh:
            json.dump(ev, fh, indent=1, default=str)
