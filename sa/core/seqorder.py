"""E3b `seqorder` — enumeration order of per-leg sequences.

A yastn tensor has two orders in which "one entry per leg" sequences are enumerated:

  LOG(a)  the order of the tensor's legs as the user sees them (meta legs, or their native refinement `a.trans`)
  NAT(a)  the order in which the legs are stored (`a.struct.s`, `a.hfs`, block charges ...)

They coincide only when no lazy transposition is pending.  The index-space typing of E3 (`legspace`) checks single
*indices*; it cannot see two sequences that are each correct but enumerated in different orders and then paired
position by position (`zip`).  This module assigns an order to sequence-valued expressions

    range(a.ndim), a.mfs, a.trans, a.s ...........................  LOG(a)
    range(a.ndim_n), a.hfs, a.struct.s, a.s_n? (no: logical) .....  NAT(a)
    a list filled by `.append` inside a loop .....................  the order of that loop
    [e for x in S], tuple(S), list(S), S[::-1], enumerate(S), S[i:j]   the order of S
    sorted(S) where the elements of S are native positions of a ...  NAT(a)
    element k of the tuple returned by a repository helper ........  the helper's summary, with its parameters
                                                                      replaced by the orders of the actual arguments

and requires of every `zip(X, Y, ...)` (and of `dict(zip(..))`) that no two arguments with a known order are LOG(a)
and NAT(a) of the same tensor — unless `a` is known to carry no pending permutation.

Flow sensitivity: the definitions of a name that reach a use are computed on the statement CFG.
"""
from __future__ import annotations

import ast

from . import astutil as A
from .cfg import CFG
from .errors import AnalysisError

LOG_ATTRS = {"mfs", "trans", "s"}
NAT_ATTRS = {"hfs", "slices_legs"}
LOG_RANGE = {"ndim"}
NAT_RANGE = {"ndim_n"}
SEQ_PRESERVING = {"tuple", "list", "enumerate", "reversed", "iter"}


class Finding:
    def __init__(self, node, msg, facts):
        self.node, self.msg, self.facts = node, msg, facts


class FuncOrder:
    def __init__(self, eng, f):
        self.eng = eng
        self.f = f
        self.fn = f.node
        self.b = A.local_bindings(self.fn)
        self.parent = A.enclosing_map(self.fn)
        self.params = list(f.params)
        self._cfg = None
        self.findings = []
        self.zips = 0          # zip sites with >= 2 typed arguments
        self.identity = set()  # tensor names known to have no pending permutation

    # ------------------------------------------------------------------ reaching definitions
    @property
    def cfg(self):
        if self._cfg is None:
            self._cfg = CFG(self.fn)
        return self._cfg

    def defs(self, name, at):
        all_ = [(st, v, k) for st, v, k in self.b.get(name, [])]
        if len(all_) <= 1 or at is None:
            return all_
        tgt = at if isinstance(at, ast.stmt) else A.stmt_of(at, self.parent)
        cfg = self.cfg
        if tgt not in cfg.node_of:
            return all_
        out = []
        for st, v, k in all_:
            if st not in cfg.node_of:
                out.append((st, v, k))
                continue
            others = [s2 for s2, _, _ in all_ if s2 is not st and s2 is not tgt and s2 in cfg.node_of]
            if cfg.path_exists(st, tgt, avoiding=others):
                out.append((st, v, k))
        return out or all_

    # ------------------------------------------------------------------ element kinds
    def elem_is_native_pos(self, name, at, depth=0):
        """are the values held by scalar `name` native positions of some tensor?  -> tensor name | None"""
        if depth > 4:
            return None
        res = set()
        for st, v, k in self.defs(name, at):
            if k == "assign" and isinstance(v, ast.Subscript) and isinstance(v.value, ast.Attribute) and v.value.attr == "trans":
                res.add(A.text(v.value.value))
            elif k == "assign" and isinstance(v, ast.Name):
                r = self.elem_is_native_pos(v.id, st, depth + 1)
                res.add(r)
            else:
                res.add(None)
        if len(res) == 1:
            return res.pop()
        return None

    # ------------------------------------------------------------------ orders
    def loop_order(self, loop, depth=0):
        return self.order(loop.iter, loop, depth + 1)

    def append_order(self, name, at, depth=0):
        """order of a list that is only filled by .append/.extend inside loops: the order of the outermost loop"""
        apps = []
        for n in A.walk_local(self.fn, include_self=False):
            if isinstance(n, ast.Call) and isinstance(n.func, ast.Attribute) and n.func.attr in ("append", "extend", "insert") \
                    and isinstance(n.func.value, ast.Name) and n.func.value.id == name:
                apps.append(n)
        if not apps:
            return None
        orders = set()
        for ap in apps:
            if ap.func.attr == "insert":
                return None
            cur, loop = ap, None
            while cur in self.parent:
                cur = self.parent[cur]
                if isinstance(cur, (ast.For, ast.AsyncFor)):
                    loop = cur           # keep climbing: outermost loop
                if isinstance(cur, ast.While):
                    return None
            if loop is None:
                return None
            orders.add(self.loop_order(loop, depth + 1))
        if len(orders) == 1:
            return orders.pop()
        return None

    def order(self, e, at, depth=0):
        """-> ('LOG'|'NAT', tensor) | ('PARAM', name) | None"""
        if depth > 10 or e is None:
            return None
        if isinstance(e, ast.Name):
            if e.id in self.params and e.id not in self.b:
                return ("PARAM", e.id)
            ds = self.defs(e.id, at)
            if not ds:
                return None
            res = set()
            for st, v, k in ds:
                if k == "assign":
                    if isinstance(v, (ast.List, ast.Tuple)) and not v.elts:
                        res.add(self.append_order(e.id, at, depth + 1))
                    else:
                        res.add(self.order(v, st, depth + 1))
                elif k == "unpack":
                    res.add(self.unpack_order(e.id, st, depth + 1))
                else:
                    res.add(None)
            if len(res) == 1:
                return res.pop()
            return None
        if isinstance(e, ast.Attribute):
            base = A.text(e.value)
            if e.attr in LOG_ATTRS and isinstance(e.value, ast.Name):
                return ("LOG", base)
            if e.attr in NAT_ATTRS and isinstance(e.value, ast.Name):
                return ("NAT", base)
            if e.attr == "s" and isinstance(e.value, ast.Attribute) and e.value.attr == "struct" and isinstance(e.value.value, ast.Name):
                return ("NAT", A.text(e.value.value))
            return None
        if isinstance(e, ast.Subscript):
            if isinstance(e.slice, ast.Slice):
                return self.order(e.value, at, depth + 1)      # a slice keeps the relative order
            return None
        if isinstance(e, ast.Starred):
            return self.order(e.value, at, depth + 1)
        if isinstance(e, (ast.ListComp, ast.GeneratorExp, ast.SetComp)):
            g = e.generators[0]
            return self.order(g.iter, at, depth + 1)
        if isinstance(e, ast.IfExp):
            a, b = self.order(e.body, at, depth + 1), self.order(e.orelse, at, depth + 1)
            return a if a == b else None
        if isinstance(e, ast.Call):
            nm = A.call_name(e) or ""
            if nm == "range" and len(e.args) == 1:
                a0 = e.args[0]
                if isinstance(a0, ast.Attribute) and isinstance(a0.value, ast.Name):
                    if a0.attr in LOG_RANGE:
                        return ("LOG", a0.value.id)
                    if a0.attr in NAT_RANGE:
                        return ("NAT", a0.value.id)
                if isinstance(a0, ast.Call) and A.call_name(a0) == "len" and a0.args:
                    return self.order(a0.args[0], at, depth + 1)
                return None
            if nm in SEQ_PRESERVING and e.args:
                return self.order(e.args[0], at, depth + 1)
            if nm == "zip":
                os_ = {self.order(a, at, depth + 1) for a in e.args}
                os_.discard(None)
                return os_.pop() if len(os_) == 1 else None
            if nm == "sorted" and e.args:
                a0 = e.args[0]
                if isinstance(a0, ast.Name) and A.kwarg(e, "key") is None:
                    t = self.seq_elems_native(a0.id, at)
                    if t:
                        return ("NAT", t)
                return None
            # repository helper: element orders of its return value
            tgt = self.eng.resolve_call(self.f, e)
            if tgt is not None:
                summ = self.eng.summary(tgt)
                if summ and summ.get("whole") is not None:
                    return self.subst(summ["whole"], tgt, e, at, depth)
            return None
        return None

    def seq_elems_native(self, name, at):
        """list `name` is filled with native positions of tensor t -> t"""
        ts = set()
        for n in A.walk_local(self.fn, include_self=False):
            if isinstance(n, ast.Call) and isinstance(n.func, ast.Attribute) and n.func.attr == "append" \
                    and isinstance(n.func.value, ast.Name) and n.func.value.id == name and n.args:
                a0 = n.args[0]
                if isinstance(a0, ast.Name):
                    ts.add(self.elem_is_native_pos(a0.id, n))
                elif isinstance(a0, ast.Subscript) and isinstance(a0.value, ast.Attribute) and a0.value.attr == "trans":
                    ts.add(A.text(a0.value.value))
                else:
                    ts.add(None)
        if len(ts) == 1:
            return ts.pop()
        return None

    def unpack_order(self, name, st, depth):
        """`x, y, z = helper(...)`: order of the element bound to `name`"""
        if not isinstance(st, ast.Assign) or not isinstance(st.targets[0], (ast.Tuple, ast.List)):
            return None
        elts = st.targets[0].elts
        idx = None
        for i, t in enumerate(elts):
            if isinstance(t, ast.Name) and t.id == name:
                idx = i
        if idx is None or any(isinstance(t, ast.Starred) for t in elts):
            return None
        v = st.value
        if isinstance(v, ast.Call):
            tgt = self.eng.resolve_call(self.f, v)
            if tgt is None:
                return None
            summ = self.eng.summary(tgt)
            if not summ or idx not in summ.get("elems", {}):
                return None
            return self.subst(summ["elems"][idx], tgt, v, st, depth)
        return None

    def subst(self, o, callee, call, at, depth):
        """translate an order expressed in the callee's terms to the caller"""
        if o is None:
            return None
        kind, who = o
        # who is a parameter name of the callee (for LOG/NAT: the tensor parameter; for PARAM: the sequence parameter)
        params = callee.params
        bound = callee.bound_to and isinstance(call.func, ast.Attribute) and not (A.call_name(call) or "").startswith("_")
        actual = None
        if who in params:
            i = params.index(who)
            if isinstance(call.func, ast.Attribute) and callee.cls is None and callee.bound_to and A.text(call.func.value) not in ("yastn",):
                # method call on a tensor: receiver is parameter 0
                actual = call.func.value if i == 0 else (call.args[i - 1] if i - 1 < len(call.args) else None)
            else:
                actual = call.args[i] if i < len(call.args) else None
            if actual is None:
                for kw in call.keywords:
                    if kw.arg == who:
                        actual = kw.value
        if actual is None:
            return None
        if kind == "PARAM":
            return self.order(actual, at, depth + 1)
        if isinstance(actual, ast.Name):
            return (kind, actual.id)
        return None

    # ------------------------------------------------------------------ summary of this function (as a callee)
    def summarise(self):
        rets = [r for r in A.returns_of(self.fn) if r.value is not None]
        elems, whole = {}, None
        first = True
        for r in rets:
            v = r.value
            if isinstance(v, ast.Tuple):
                cur = {i: self.order(x, r) for i, x in enumerate(v.elts)}
                if first:
                    elems = cur
                else:
                    elems = {i: o for i, o in elems.items() if cur.get(i) == o}
                w = None
            else:
                w = self.order(v, r)
                elems = {} if not first else elems
            whole = w if first else (whole if whole == w else None)
            first = False
        return {"elems": {i: o for i, o in elems.items() if o is not None}, "whole": whole}

    # ------------------------------------------------------------------ the check
    def is_identity(self, ten, at):
        """tensor name bound (on all reaching definitions) to the result of consume_transpose()"""
        ds = self.defs(ten, at)
        if not ds:
            return False
        for st, v, k in ds:
            if not (k == "assign" and isinstance(v, ast.Call) and A.callee_attr(v) == "consume_transpose"):
                return False
        return True

    def check_zips(self):
        for n in A.walk_local(self.fn, include_self=False):
            if not (isinstance(n, ast.Call) and A.call_name(n) == "zip" and len(n.args) >= 2):
                continue
            st = A.stmt_of(n, self.parent)
            typed = []
            for a in n.args:
                o = self.order(a, st)
                if o is not None and o[0] in ("LOG", "NAT"):
                    typed.append((a, o))
            if len(typed) < 2:
                continue
            self.zips += 1
            bad = None
            for i in range(len(typed)):
                for j in range(i + 1, len(typed)):
                    (a1, o1), (a2, o2) = typed[i], typed[j]
                    if o1[1] == o2[1] and o1[0] != o2[0] and not self.is_identity(o1[1], st):
                        bad = (a1, o1, a2, o2)
            facts = {"arguments": {A.short(a, 40): f"{o[0]}({o[1]})" for a, o in typed}}
            if bad:
                a1, o1, a2, o2 = bad
                self.findings.append(Finding(n, f"`{A.short(n, 70)}` pairs `{A.short(a1, 30)}`, enumerated in "
                                             f"{'the order of the tensor legs' if o1[0] == 'LOG' else 'native storage order'} of `{o1[1]}`, position by position with "
                                             f"`{A.short(a2, 30)}`, enumerated in {'the order of the tensor legs' if o2[0] == 'LOG' else 'native storage order'}: "
                                             f"the two orders differ whenever `{o1[1]}` carries a pending (lazy) transposition", facts))
            else:
                self.findings.append(Finding(n, None, facts))


class Engine:
    def __init__(self, prog, modules):
        self.prog = prog
        self.modules = set(modules)
        self._sum = {}
        self._busy = set()
        self._fo = {}

    def fo(self, f):
        if id(f) not in self._fo:
            self._fo[id(f)] = FuncOrder(self, f)
        return self._fo[id(f)]

    def resolve_call(self, f, call):
        nm = A.call_name(call)
        if nm is None:
            return None
        last = nm.split(".")[-1]
        if isinstance(call.func, ast.Name):
            r = self.prog.resolve(f.module, call.func.id)
            from .loader import FuncInfo
            return r if isinstance(r, FuncInfo) and r.module.name in self.modules else None
        return None

    def summary(self, f):
        if id(f) in self._sum:
            return self._sum[id(f)]
        if id(f) in self._busy:
            return None
        self._busy.add(id(f))
        try:
            s = self.fo(f).summarise()
        finally:
            self._busy.discard(id(f))
        self._sum[id(f)] = s
        return s
