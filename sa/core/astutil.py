"""Small AST helpers shared by all rules."""
from __future__ import annotations

import ast
import copy
import re

_ws = re.compile(r"\s+")


def text(node) -> str:
    """Normalised source text of a node (G-5: keys survive reformatting)."""
    if node is None:
        return "None"
    if isinstance(node, str):
        return _ws.sub(" ", node).strip()
    if isinstance(node, list):
        return "; ".join(text(n) for n in node)
    return _ws.sub(" ", ast.unparse(node)).strip()


def short(node, n=110) -> str:
    t = text(node)
    return t if len(t) <= n else t[: n - 3] + "..."


def walk_local(node, include_self=True):
    """ast.walk that does not descend into nested def/class (lambdas and comprehensions are kept)."""
    todo = [node]
    first = True
    while todo:
        cur = todo.pop()
        if not first and isinstance(cur, (ast.FunctionDef, ast.AsyncFunctionDef, ast.ClassDef)):
            continue
        if not first or include_self:
            yield cur
        first = False
        todo.extend(reversed(list(ast.iter_child_nodes(cur))))


def chain(node):
    """['a','b','c'] for a.b.c ; None if the base is not a plain name."""
    parts = []
    cur = node
    while isinstance(cur, ast.Attribute):
        parts.append(cur.attr)
        cur = cur.value
    if isinstance(cur, ast.Name):
        parts.append(cur.id)
        return list(reversed(parts))
    return None


def dotted(node):
    c = chain(node)
    return ".".join(c) if c else None


def call_name(call: ast.Call):
    """Dotted callee name if the callee is a name/attribute chain on a name, else the last attribute
    prefixed with '?.' (method call on an arbitrary expression)."""
    f = call.func
    d = dotted(f)
    if d:
        return d
    if isinstance(f, ast.Attribute):
        return "?." + f.attr
    return None


def callee_attr(call: ast.Call):
    f = call.func
    if isinstance(f, ast.Attribute):
        return f.attr
    if isinstance(f, ast.Name):
        return f.id
    return None


def calls(node):
    return [n for n in walk_local(node) if isinstance(n, ast.Call)]


def names_read(node):
    return {n.id for n in ast.walk(node) if isinstance(n, ast.Name) and isinstance(n.ctx, ast.Load)}


def kwarg(call: ast.Call, name: str):
    for k in call.keywords:
        if k.arg == name:
            return k.value
    return None


def arg(call: ast.Call, pos: int, name: str | None = None):
    """Positional-or-keyword argument of a call."""
    if pos is not None and pos < len(call.args) and not any(isinstance(a, ast.Starred) for a in call.args[: pos + 1]):
        return call.args[pos]
    if name is not None:
        return kwarg(call, name)
    return None


def is_const(node, value=...):
    if not isinstance(node, ast.Constant):
        return False
    return value is ... or (node.value == value and type(node.value) is type(value))


def neg_const(node):
    """Numeric value of a (possibly negated) numeric literal, else None."""
    if isinstance(node, ast.Constant) and isinstance(node.value, (int, float)) and not isinstance(node.value, bool):
        return node.value
    if isinstance(node, ast.UnaryOp) and isinstance(node.op, ast.USub):
        v = neg_const(node.operand)
        return -v if v is not None else None
    if isinstance(node, ast.UnaryOp) and isinstance(node.op, ast.UAdd):
        return neg_const(node.operand)
    return None


def assigned_names(target):
    """Names bound by an assignment target (tuple unpacking included)."""
    out = []
    if isinstance(target, ast.Name):
        out.append(target.id)
    elif isinstance(target, (ast.Tuple, ast.List)):
        for e in target.elts:
            out.extend(assigned_names(e))
    elif isinstance(target, ast.Starred):
        out.extend(assigned_names(target.value))
    return out


def local_bindings(func: ast.FunctionDef):
    """name -> list of (stmt, value_or_None, kind) for every binding of a local name in the function
    body (parameters excluded).  kind in assign|unpack|aug|for|with|except|import|walrus|comp."""
    out: dict[str, list] = {}

    def add(n, st, val, kind):
        out.setdefault(n, []).append((st, val, kind))

    for node in walk_local(func, include_self=False):
        if isinstance(node, ast.Assign):
            for t in node.targets:
                if isinstance(t, ast.Name):
                    add(t.id, node, node.value, "assign")
                elif isinstance(t, (ast.Tuple, ast.List)):
                    names = assigned_names(t)
                    if isinstance(node.value, (ast.Tuple, ast.List)) and len(node.value.elts) == len(t.elts) \
                            and all(isinstance(e, ast.Name) for e in t.elts) \
                            and not any(isinstance(e, ast.Starred) for e in node.value.elts):
                        for e, v in zip(t.elts, node.value.elts):
                            add(e.id, node, v, "assign")
                    else:
                        for n in names:
                            add(n, node, node.value, "unpack")
        elif isinstance(node, ast.AnnAssign) and isinstance(node.target, ast.Name):
            add(node.target.id, node, node.value, "assign")
        elif isinstance(node, ast.AugAssign) and isinstance(node.target, ast.Name):
            add(node.target.id, node, node.value, "aug")
        elif isinstance(node, (ast.For, ast.AsyncFor)):
            for n in assigned_names(node.target):
                add(n, node, node.iter, "for")
        elif isinstance(node, (ast.With, ast.AsyncWith)):
            for it in node.items:
                if it.optional_vars is not None:
                    for n in assigned_names(it.optional_vars):
                        add(n, node, it.context_expr, "with")
        elif isinstance(node, ast.ExceptHandler) and node.name:
            add(node.name, node, None, "except")
        elif isinstance(node, (ast.Import, ast.ImportFrom)):
            for a in node.names:
                add(a.asname or a.name.split(".")[0], node, None, "import")
        elif isinstance(node, ast.NamedExpr) and isinstance(node.target, ast.Name):
            add(node.target.id, node, node.value, "walrus")
    return out


def comp_targets(node):
    """Names bound by comprehension generators / lambdas anywhere inside node."""
    out = set()
    for n in ast.walk(node):
        if isinstance(n, ast.comprehension):
            out.update(assigned_names(n.target))
        elif isinstance(n, ast.Lambda):
            a = n.args
            out.update(x.arg for x in a.posonlyargs + a.args + a.kwonlyargs)
            if a.vararg:
                out.add(a.vararg.arg)
            if a.kwarg:
                out.add(a.kwarg.arg)
    return out


class Inliner(ast.NodeTransformer):
    """Replaces loads of single-assignment locals by their defining expression (bounded depth).
    A name is inlined only if it is bound exactly once in the function, by a plain assignment,
    and is not a parameter.  Keeps rules insensitive to 'bind h = 0.5*u*dt first' style edits."""

    def __init__(self, func: ast.FunctionDef, depth=6, stop=()):
        self.b = local_bindings(func)
        a = func.args
        self.params = {x.arg for x in a.posonlyargs + a.args + a.kwonlyargs}
        if a.vararg:
            self.params.add(a.vararg.arg)
        if a.kwarg:
            self.params.add(a.kwarg.arg)
        self.depth = depth
        self.stop = set(stop)
        self._shadow = [set()]

    def single_def(self, name):
        if name in self.params or name in self.stop:
            return None
        bs = self.b.get(name, [])
        if len(bs) == 1 and bs[0][2] == "assign" and bs[0][1] is not None:
            return bs[0][1]
        return None

    def expand(self, node, depth=None):
        depth = self.depth if depth is None else depth
        node = copy.deepcopy(node)
        return self._expand(node, depth)

    def _expand(self, node, depth):
        if depth <= 0:
            return node
        shadow = comp_targets(node)
        changed = [False]
        outer = self

        class T(ast.NodeTransformer):
            def visit_Name(self, n):
                if isinstance(n.ctx, ast.Load) and n.id not in shadow:
                    d = outer.single_def(n.id)
                    if d is not None:
                        changed[0] = True
                        return copy.deepcopy(d)
                return n

        new = T().visit(node)
        if changed[0]:
            return self._expand(new, depth - 1)
        return new


def enclosing_map(func: ast.AST):
    """child -> parent map for a function body."""
    parent = {}
    for n in ast.walk(func):
        for c in ast.iter_child_nodes(n):
            parent[c] = n
    return parent


def stmt_of(node, parent):
    cur = node
    while cur is not None and not isinstance(cur, ast.stmt):
        cur = parent.get(cur)
    return cur


def strip_docstring(body):
    if body and isinstance(body[0], ast.Expr) and isinstance(body[0].value, ast.Constant) \
            and isinstance(body[0].value.value, str):
        return body[1:]
    return body


def returns_of(func: ast.FunctionDef):
    return [n for n in walk_local(func, include_self=False) if isinstance(n, ast.Return)]


def literal(node, env=None):
    """literal_eval extended with names from env and unary minus / tuple concatenation."""
    env = env or {}
    if isinstance(node, ast.Name) and node.id in env:
        return env[node.id]
    if isinstance(node, ast.Constant):
        return node.value
    if isinstance(node, ast.Tuple):
        return tuple(literal(e, env) for e in node.elts)
    if isinstance(node, ast.List):
        return [literal(e, env) for e in node.elts]
    if isinstance(node, ast.Set):
        return {literal(e, env) for e in node.elts}
    if isinstance(node, ast.Dict):
        return {literal(k, env): literal(v, env) for k, v in zip(node.keys, node.values)}
    if isinstance(node, ast.UnaryOp) and isinstance(node.op, ast.USub):
        return -literal(node.operand, env)
    if isinstance(node, ast.BinOp) and isinstance(node.op, ast.Add):
        return literal(node.left, env) + literal(node.right, env)
    if isinstance(node, ast.BinOp) and isinstance(node.op, ast.Mult):
        return literal(node.left, env) * literal(node.right, env)
    raise ValueError(f"not a literal: {text(node)}")


def block_of(st, parent):
    """the statement list (body / orelse / finalbody / handler body) that directly contains statement `st`"""
    p = parent.get(st)
    if p is None:
        return None
    for fld in ("body", "orelse", "finalbody"):
        blk = getattr(p, fld, None)
        if isinstance(blk, list) and st in blk:
            return blk
    for h in getattr(p, "handlers", []) or []:
        if st in h.body:
            return h.body
    return None


def cond_def(fn, name):
    """A local defined by a two-way choice, written either as `name = B if T else O` or as
    `if T: name = B` / `else: name = O` (single assignment in each branch).  -> (test, B, O, node) or None"""
    for n in walk_local(fn, include_self=False):
        if isinstance(n, ast.Assign) and len(n.targets) == 1 and text(n.targets[0]) == name and isinstance(n.value, ast.IfExp):
            return n.value.test, n.value.body, n.value.orelse, n
        if isinstance(n, ast.If) and len(n.body) == 1 and len(n.orelse) == 1 and all(
                isinstance(b, ast.Assign) and len(b.targets) == 1 and text(b.targets[0]) == name for b in (n.body[0], n.orelse[0])):
            return n.test, n.body[0].value, n.orelse[0].value, n
    return None


def straightline_paths(body, limit=256):
    """All paths through a loop-free statement list: [(conditions, stores, ret)] where conditions is a list of (test node, outcome),
    stores maps the text of every assignment target to the value node assigned last on that path, ret is the Return node that ends the
    path (None: falls off the end).  Paths ending in `raise` are dropped.  Loops / try / with are treated as opaque single statements."""
    out = []

    def go(stmts, conds, stores):
        if len(out) >= limit:
            return
        for i, st in enumerate(stmts):
            if isinstance(st, ast.If):
                go(st.body + stmts[i + 1:], conds + [(st.test, True)], dict(stores))
                go(st.orelse + stmts[i + 1:], conds + [(st.test, False)], dict(stores))
                return
            if isinstance(st, ast.Return):
                out.append((conds, stores, st))
                return
            if isinstance(st, ast.Raise):
                return
            if isinstance(st, ast.Assign):
                for t in st.targets:
                    if isinstance(t, (ast.Tuple, ast.List)) and isinstance(st.value, (ast.Tuple, ast.List)) and len(t.elts) == len(st.value.elts):
                        for tt, vv in zip(t.elts, st.value.elts):
                            stores[text(tt)] = vv
                    else:
                        stores[text(t)] = st.value
            elif isinstance(st, ast.AugAssign):
                stores[text(st.target)] = ast.BinOp(left=st.target, op=st.op, right=st.value)
        out.append((conds, stores, None))
    go(list(body), [], {})
    return out


def literal_seq(node, fn=None, module_tree=None):
    """Evaluate a literal list/tuple/set; a Name is resolved through its single assignment in `fn` or, failing that, through a
    single module-level assignment.  -> python list or None"""
    seen = 0
    while isinstance(node, ast.Name) and seen < 3:
        seen += 1
        cands = []
        if fn is not None:
            cands = [v for st, v, k in local_bindings(fn).get(node.id, []) if k == "assign" and v is not None]
        if not cands and module_tree is not None:
            cands = [n.value for n in module_tree.body if isinstance(n, ast.Assign) and len(n.targets) == 1 and text(n.targets[0]) == node.id]
        if len(cands) != 1:
            return None
        node = cands[0]
    if isinstance(node, ast.Call) and call_name(node) in ("tuple", "list", "set", "frozenset") and len(node.args) == 1:
        node = node.args[0]
    try:
        v = ast.literal_eval(node)
    except Exception:
        return None
    return list(v) if isinstance(v, (list, tuple, set, frozenset)) else None
