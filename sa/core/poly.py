"""E0.5 exact polynomial / rational normal form over fractions.Fraction.

A polynomial is a dict {monomial: coefficient}; a monomial is a sorted tuple of (symbol, exponent).
Symbols are names; calls and other non-arithmetic sub-expressions become opaque atoms keyed by their
normalised source text.  Rational functions are pairs (num, den); equality by cross-multiplication.
Float literals are converted exactly (Fraction(float)), so identities are decided for the literals as written.
"""
from __future__ import annotations

import ast
from fractions import Fraction

from .astutil import text


class NotPolynomial(Exception):
    pass


def _mono_mul(a, b):
    d = dict(a)
    for s, e in b:
        d[s] = d.get(s, 0) + e
    return tuple(sorted((s, e) for s, e in d.items() if e != 0))


class Poly:
    def __init__(self, terms=None):
        self.t = {m: c for m, c in (terms or {}).items() if c != 0}

    @staticmethod
    def const(c):
        return Poly({(): Fraction(c)})

    @staticmethod
    def sym(name):
        return Poly({((name, 1),): Fraction(1)})

    def __add__(self, o):
        d = dict(self.t)
        for m, c in o.t.items():
            d[m] = d.get(m, 0) + c
        return Poly(d)

    def __neg__(self):
        return Poly({m: -c for m, c in self.t.items()})

    def __sub__(self, o):
        return self + (-o)

    def __mul__(self, o):
        d = {}
        for m1, c1 in self.t.items():
            for m2, c2 in o.t.items():
                m = _mono_mul(m1, m2)
                d[m] = d.get(m, 0) + c1 * c2
        return Poly(d)

    def __pow__(self, n):
        r = Poly.const(1)
        for _ in range(n):
            r = r * self
        return r

    def is_zero(self):
        return not self.t

    def is_const(self):
        return all(m == () for m in self.t)

    def const_value(self):
        return self.t.get((), Fraction(0))

    def __eq__(self, o):
        return self.t == o.t

    def __repr__(self):
        if not self.t:
            return "0"
        parts = []
        for m, c in sorted(self.t.items()):
            mono = "*".join(s if e == 1 else f"{s}^{e}" for s, e in m)
            parts.append(f"{c}" + (f"*{mono}" if mono else ""))
        return " + ".join(parts)

    def symbols(self):
        return {s for m in self.t for s, _ in m}

    def subs(self, name, poly):
        out = Poly()
        for m, c in self.t.items():
            term = Poly.const(c)
            for s, e in m:
                term = term * ((poly ** e) if s == name else (Poly.sym(s) ** e))
            out = out + term
        return out


class Rat:
    def __init__(self, num, den=None):
        self.n = num
        self.d = den if den is not None else Poly.const(1)

    def __add__(self, o):
        return Rat(self.n * o.d + o.n * self.d, self.d * o.d)

    def __sub__(self, o):
        return Rat(self.n * o.d - o.n * self.d, self.d * o.d)

    def __neg__(self):
        return Rat(-self.n, self.d)

    def __mul__(self, o):
        return Rat(self.n * o.n, self.d * o.d)

    def __truediv__(self, o):
        if o.n.is_zero():
            raise NotPolynomial("division by zero polynomial")
        return Rat(self.n * o.d, self.d * o.n)

    def __pow__(self, k):
        if k >= 0:
            return Rat(self.n ** k, self.d ** k)
        return Rat(self.d ** (-k), self.n ** (-k))

    def equals(self, o):
        return (self.n * o.d - o.n * self.d).is_zero()

    def is_zero(self):
        return self.n.is_zero()

    def __repr__(self):
        return f"({self.n}) / ({self.d})" if not (self.d.is_const() and self.d.const_value() == 1) else repr(self.n)


def from_ast(node, env=None, opaque=True):
    """AST arithmetic expression -> Rat.  env: name -> Rat | ast node (substituted)."""
    env = env or {}

    def go(n, depth=0):
        if depth > 40:
            raise NotPolynomial("too deep")
        if isinstance(n, ast.Constant) and isinstance(n.value, (int, float)) and not isinstance(n.value, bool):
            return Rat(Poly.const(Fraction(n.value)))
        if isinstance(n, ast.Constant) and isinstance(n.value, complex):
            # a*1j : treat the imaginary unit as a symbol with I^2 = -1 not needed for our identities
            return Rat(Poly.const(Fraction(n.value.imag)) * Poly.sym("__I__"))
        if isinstance(n, ast.Name):
            if n.id in env:
                v = env[n.id]
                return v if isinstance(v, Rat) else go(v, depth + 1)
            return Rat(Poly.sym(n.id))
        if isinstance(n, ast.UnaryOp) and isinstance(n.op, ast.USub):
            return -go(n.operand, depth + 1)
        if isinstance(n, ast.UnaryOp) and isinstance(n.op, ast.UAdd):
            return go(n.operand, depth + 1)
        if isinstance(n, ast.BinOp):
            if isinstance(n.op, ast.Add):
                return go(n.left, depth + 1) + go(n.right, depth + 1)
            if isinstance(n.op, ast.Sub):
                return go(n.left, depth + 1) - go(n.right, depth + 1)
            if isinstance(n.op, ast.Mult):
                return go(n.left, depth + 1) * go(n.right, depth + 1)
            if isinstance(n.op, ast.Div):
                return go(n.left, depth + 1) / go(n.right, depth + 1)
            if isinstance(n.op, ast.Pow) and isinstance(n.right, ast.Constant) and isinstance(n.right.value, int):
                return go(n.left, depth + 1) ** n.right.value
        if opaque:
            return Rat(Poly.sym("<" + text(n) + ">"))
        raise NotPolynomial(text(n))
    return go(node)
